"""Throwaway probe: multi-engine trees + Processor vs model (multiset, gated)."""
import random, sys, collections, traceback, os
from common import *
from proc import P
from fuzz1 import gen_expr, gen_pred, ev, canon, M
ref = ColumnExpression.reference
TAGS = [Tag(n) for n in 'abcd']
def apply_model(kind, m, arg):
    if kind == 'calc': t, e = arg; return M(m.cols | {t}, [{**x, t: ev(e, x)} for x in m.rows], m.det)
    if kind == 'proj': return M(arg, [{k: x[k] for k in arg} for x in m.rows], m.det)
    if kind == 'sel': return M(m.cols, [x for x in m.rows if ev(arg, x)], m.det)
    if kind == 'dedup':
        seen = []; [seen.append(x) for x in m.rows if x not in seen]; return M(m.cols, seen, m.det)
    if kind == 'sort':
        rows = list(m.rows)
        for term in reversed(arg): rows.sort(key=lambda x: x[term.expression.tag], reverse=not term.ascending)
        nm = M(m.cols, rows, m.det); nm.sorted = True; return nm
    if kind == 'slice':
        a, b = arg; nm = M(m.cols, m.rows[a:b], m.det and (getattr(m, 'sorted', False) or not m.rows)); nm.sorted = getattr(m, 'sorted', False); return nm
def run(seed, nops=7):
    r = random.Random(seed); w = World(); p = P(w)
    pool = []
    for i in range(3):
        cols = r.sample(TAGS, r.randint(1, 3)); n = r.randint(0, 4)
        rows = [tuple(r.randint(0, 2) for _ in cols) for _ in range(n)]
        mk = w.sql_leaf if r.random() < .7 else w.it_leaf
        rel = mk(f'L{i}', cols, rows)
        pool.append((rel, M(cols, [dict(zip(cols, x)) for x in rows]), f'L{i}@{rel.engine}{cols}{rows}'))
    engines = [w.sql, w.it]
    for step in range(nops):
        rel, m, desc = r.choice(pool)
        kind = r.choice(['calc','proj','sel','dedup','sort','slice','xfer','xfer','mat'])
        opts = {}
        if kind in ('calc','proj','sel','dedup','sort') and r.random() < .6:
            opts = dict(preferred_engine=r.choice(engines), backtrack=r.random() < .8, transfer=r.random() < .3, require_preferred_engine=r.random() < .2)
        try:
            if kind == 'xfer':
                new = rel.transferred_to(r.choice(engines)); nm = M(m.cols, m.rows, m.det); nm.sorted = False; d = f'->{new.engine}'
            elif kind == 'mat':
                new = rel.materialized(f'm{step}'); nm = M(m.cols, m.rows, m.det); nm.sorted = getattr(m,'sorted',False); d = 'mat'
            elif kind == 'calc':
                free = [t for t in TAGS if t not in m.cols]
                if not free or not m.cols: continue
                t = r.choice(free); e = gen_expr(r, m.cols)
                if not e.columns_required: continue
                new = rel.with_calculated_column(t, e, **opts); nm = apply_model(kind, m, (t, e)); d = f'calc({t}={e}){opts and "*"}'
            elif kind == 'proj':
                keep = frozenset(t for t in m.cols if r.random() < .6)
                new = rel.with_only_columns(keep, **opts); nm = apply_model(kind, m, keep); d = f'proj{set(keep)}{opts and "*"}'
            elif kind == 'sel':
                pr = gen_pred(r, m.cols); new = rel.with_rows_satisfying(pr, **opts); nm = apply_model(kind, m, pr); d = f'sel({pr}){opts and "*"}'
            elif kind == 'dedup':
                new = rel.without_duplicates(**opts); nm = apply_model(kind, m, None); d = f'dedup{opts and "*"}'
            elif kind == 'sort':
                if not m.cols: continue
                order = sorted(m.cols, key=str); r.shuffle(order)
                terms = [SortTerm(ref(t), r.random() < .5) for t in order]
                new = rel.sorted(terms, **opts); nm = apply_model(kind, m, terms); d = f'sort{[str(t) for t in terms]}{opts and "*"}'
            elif kind == 'slice':
                a = r.randint(0, 3); b = r.choice([None, a + r.randint(0, 3)])
                new = rel[a:b]; nm = apply_model(kind, m, (a, b)); d = f'slice[{a}:{b}]'
        except EngineError as e:
            if opts.get('require_preferred_engine') or 'not supported' in str(e): continue
            return ('BUILD', seed, desc + ' | ' + kind + str(opts), repr(e)[:150])
        except RelationalAlgebraError as e:
            if 'preserve row order' in str(e): continue
            return ('BUILD', seed, desc + ' | ' + kind + str({k: str(v) for k, v in opts.items()}), repr(e)[:150])
        except ValueError as e:
            if 'Slice stop' in str(e): continue
            return ('BUILD', seed, desc + ' | ' + kind, repr(e)[:150])
        except Exception as e:
            return ('BUILD', seed, desc + ' | ' + kind + str({k: str(v) for k, v in opts.items()}), repr(e)[:150])
        if kind == 'proj' and getattr(m, 'sorted', False): nm.sorted = False
        ndesc = desc + ' | ' + d
        pool.append((new, nm, ndesc))
        if set(new.columns) != set(nm.cols): return ('COLS', seed, ndesc, (str(new), new.columns, nm.cols))
        try:
            out = p.process(new)
            if out.engine is w.sql: got = w.run_sql(out); got = [{t: g[t.qualified_name] for t in nm.cols} for g in got]
            else: got = [dict(x) for x in w.it.execute(out)]
        except Exception as e:
            if 'Cannot persist materialization' in str(e): pool.pop(); continue
            return ('EXEC', seed, ndesc, (str(new), repr(e)[:200]))
        if nm.det:
            if canon(got) != canon(nm.rows): return ('ROWS', seed, ndesc, (str(new), canon(got), canon(nm.rows)))
        elif len(got) != len(nm.rows): return ('COUNT', seed, ndesc, (str(new), len(got), len(nm.rows)))
        if not (new.min_rows <= len(nm.rows) and (new.max_rows is None or len(nm.rows) <= new.max_rows)):
            return ('BOUNDS', seed, ndesc, (str(new), new.min_rows, new.max_rows, len(nm.rows)))
    return None
if __name__ == '__main__':
    res = collections.Counter(); ex = {}
    for seed in range(int(sys.argv[1]), int(sys.argv[2])):
        try: out = run(seed)
        except Exception as e: out = ('HARNESS', seed, '', traceback.format_exc()[-600:])
        if out:
            key = (out[0], str(out[3])[-70:] if out[0] != 'ROWS' else '')
            res[key] += 1; ex.setdefault(key, out)
    for k, v in res.most_common(): print(v, k); print('   ', str(ex[k][1:])[:1200])
