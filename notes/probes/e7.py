from common import *
import time
w = World()
a,b = Tag('a'),Tag('b')
S = w.sql_leaf('S',[a,b],[(i, i%3) for i in range(6)])
print([r['a'] for r in w.run_sql(S)])
w.conn.exec_driver_sql("PRAGMA reverse_unordered_selects = ON")
print([r['a'] for r in w.run_sql(S)])
print([r['a'] for r in w.run_sql(S[1:3])])
print([r['a'] for r in w.run_sql(S.without_duplicates())], [r['b'] for r in w.run_sql(S.with_only_columns({b}).without_duplicates())])
w.conn.exec_driver_sql("PRAGMA reverse_unordered_selects = OFF")
print([r['a'] for r in w.run_sql(S[1:3])])
raw = w.conn.connection.dbapi_connection
cnt=[0]
def cb():
    cnt[0]+=1
    return 1 if cnt[0]>=3 else 0
raw.set_progress_handler(cb, 5)
try:
    print(w.run_sql(S.join(w.sql_leaf('S2',[a],[(i,) for i in range(6)]))))
except Exception as e:
    print(type(e).__name__, str(e)[:100])
raw.set_progress_handler(None, 0)
print(len(w.run_sql(S)))
# timing
t=time.time()
for i in range(200):
    r = S.with_rows_satisfying(ColumnExpression.reference(a).gt(ColumnExpression.literal(i%5))).with_only_columns({a}).without_duplicates()
    w.run_sql(r)
print('200 build+compile+exec', time.time()-t)
t=time.time()
for i in range(50):
    w2=World(); w2.sql_leaf('S',[a,b],[(i, i%3) for i in range(6)])
print('50 worlds', time.time()-t)
