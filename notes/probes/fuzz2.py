"""Throwaway differential probe: SQL engine & iteration engine vs list model."""
import random, sys, collections, traceback, os
COLL=os.environ.get("COLL")=="1"
from common import *
from proc import P
ref = ColumnExpression.reference; lit = ColumnExpression.literal
TAGS = [Tag(n, h=(1+8*i if COLL else 0)) for i,n in enumerate('abcd')]
def gen_expr(r, cols, depth=2):
    cols = sorted(cols, key=str)
    if depth == 0 or r.random() < .3:
        return ref(r.choice(cols)) if cols and r.random() < .8 else lit(r.randint(-2, 3))
    op = r.choice(['__add__', '__sub__', '__mul__', '__neg__'])
    if op == '__neg__': return ColumnExpression.function(op, gen_expr(r, cols, depth-1))
    return ColumnExpression.function(op, gen_expr(r, cols, depth-1), gen_expr(r, cols, depth-1))
def gen_pred(r, cols, depth=2):
    k = r.random()
    if depth == 0 or k < .5:
        if r.random() < .1: return Predicate.literal(r.random() < .5)
        return getattr(gen_expr(r, cols, 1), r.choice(['eq','ne','lt','le','gt','ge']))(gen_expr(r, cols, 1))
    if k < .6: return gen_pred(r, cols, depth-1).logical_not()
    n = r.randint(0, 3); ops = tuple(gen_pred(r, cols, depth-1) for _ in range(n))
    return LogicalAnd(ops) if r.random() < .5 else LogicalOr(ops)
def ev(e, row):
    import operator
    match e:
        case ColumnLiteral(value=v): return v
        case ColumnReference(tag=t): return row[t]
        case ColumnFunction(name=n, args=a): return getattr(operator, n)(*[ev(x, row) for x in a])
        case PredicateFunction(name=n, args=a): return getattr(operator, n)(*[ev(x, row) for x in a])
        case PredicateLiteral(value=v): return v
        case LogicalNot(operand=o): return not ev(o, row)
        case LogicalAnd(operands=o): return all(ev(x, row) for x in o)
        case LogicalOr(operands=o): return any(ev(x, row) for x in o)
    raise AssertionError(e)
class M:  # model value
    def __init__(s, cols, rows, det=True, leaves=frozenset(), chainy=False): s.cols=frozenset(cols); s.rows=rows; s.det=det; s.leaves=leaves; s.chainy=chainy
def canon(rows): return sorted(tuple(sorted((str(k), v) for k, v in r.items())) for r in rows)
def run(seed, nops=8, verbose=False):
    r = random.Random(seed); w = World()
    pool = []
    for i in range(4):
        cols = r.sample(TAGS, r.randint(1, 3)); n = r.randint(0, 4)
        rows = [tuple(r.randint(0, 2) for _ in cols) for _ in range(n)]
        rel = w.sql_leaf(f'L{i}', cols, rows)
        pool.append((rel, M(cols, [dict(zip(cols, x)) for x in rows], leaves=frozenset([i])), f'L{i}{cols}{rows}'))
    log = []
    for step in range(nops):
        rel, m, desc = r.choice(pool)
        kind = r.choice(['calc','proj','sel','dedup','sort','slice','chain','join'])
        try:
            if kind == 'calc':
                free = [t for t in TAGS if t not in m.cols]
                if not free or not m.cols: continue
                t = r.choice(free); e = gen_expr(r, m.cols)
                if not e.columns_required: continue
                new = rel.with_calculated_column(t, e); nm = M(m.cols | {t}, [{**x, t: ev(e, x)} for x in m.rows], m.det); d = f'calc({t}={e})'
            elif kind == 'proj':
                keep = frozenset(t for t in m.cols if r.random() < .6)
                new = rel.with_only_columns(keep); nm = M(keep, [{k: x[k] for k in keep} for x in m.rows], m.det); d = f'proj{set(keep)}'
            elif kind == 'sel':
                p = gen_pred(r, m.cols); new = rel.with_rows_satisfying(p); nm = M(m.cols, [x for x in m.rows if ev(p, x)], m.det); d = f'sel({p})'
            elif kind == 'dedup':
                seen = []; [seen.append(x) for x in m.rows if x not in seen]
                new = rel.without_duplicates(); nm = M(m.cols, seen, m.det); d = 'dedup'
            elif kind == 'sort':
                if not m.cols: continue
                # total sort: all columns
                order = sorted(m.cols, key=str); r.shuffle(order)
                terms = [SortTerm(ref(t), r.random() < .5) for t in order]
                rows = list(m.rows)
                for term in reversed(terms): rows.sort(key=lambda x: x[term.expression.tag], reverse=not term.ascending)
                new = rel.sorted(terms); nm = M(m.cols, rows, m.det); nm.sorted = True; d = f'sort{[str(t) for t in terms]}'
            elif kind == 'slice':
                a = r.randint(0, 3); b = r.choice([None, a + r.randint(0, 3)])
                new = rel[a:b]
                det = m.det and (getattr(m, 'sorted', False) or len(m.rows) <= 0)
                nm = M(m.cols, m.rows[a:b], det); d = f'slice[{a}:{b}]'
                if getattr(m, 'sorted', False): nm.sorted = True
            elif kind == 'chain':
                cands = [(x, y, z) for x, y, z in pool if y.cols == m.cols]
                rel2, m2, d2 = r.choice(cands)
                if m2.chainy: continue
                new = rel.chain(rel2); nm = M(m.cols, m.rows + m2.rows, m.det and m2.det); d = f'chain<{d2}>'
            elif kind == 'join':
                rel2, m2, d2 = r.choice(pool); common = m.cols & m2.cols
                if (m.leaves & m2.leaves) or m.chainy or m2.chainy: continue
                rows = [{**x, **y} for x in m.rows for y in m2.rows if all(x[k] == y[k] for k in common)]
                new = rel.join(rel2); nm = M(m.cols | m2.cols, rows, m.det and m2.det); d = f'join<{d2}>'
        except RelationalAlgebraError as e:
            if 'preserve row order' in str(e): continue
            return ('BUILD', seed, desc + ' | ' + kind, repr(e))
        except Exception as e:
            return ('BUILD', seed, desc + ' | ' + kind, repr(e))
        # projection/dedup after sort keep 'sorted' only under conservative rule
        if kind in ('proj',) and getattr(m, 'sorted', False): nm.sorted = False
        if kind in ('dedup','sel','calc') and getattr(m, 'sorted', False): nm.sorted = kind != 'calc' and True
        ndesc = desc + ' | ' + d
        nm.leaves = m.leaves | (m2.leaves if kind in ('chain','join') else frozenset()); nm.chainy = (kind=='chain') or (m.chainy and kind in ('proj','dedup','sort','slice'))
        pool.append((new, nm, ndesc))
        if set(new.columns) != set(nm.cols): return ('COLS', seed, ndesc, (new.columns, nm.cols))
        try:
            got = w.run_sql(new)
        except Exception as e:
            return ('EXEC', seed, ndesc, repr(e)[:200])
        got = [{t: g[t.qualified_name] for t in nm.cols} for g in got]
        if nm.det:
            if canon(got) != canon(nm.rows): return ('ROWS', seed, ndesc, (str(new), canon(got), canon(nm.rows)))
        else:
            if len(got) != len(nm.rows): return ('COUNT', seed, ndesc, (str(new), len(got), len(nm.rows)))
        if not (new.min_rows <= len(nm.rows) and (new.max_rows is None or len(nm.rows) <= new.max_rows)):
            return ('BOUNDS', seed, ndesc, (new.min_rows, new.max_rows, len(nm.rows)))
    return None
if __name__ == "__main__":
    res = collections.Counter(); ex = {}
    for seed in range(int(sys.argv[1]), int(sys.argv[2])):
        try: out = run(seed)
        except Exception as e:
            out = ('HARNESS', seed, '', traceback.format_exc()[-400:])
        if out:
            key = (out[0], out[3][:60] if isinstance(out[3], str) else '')
            res[key] += 1; ex.setdefault(key, out)
    for k, v in res.most_common(): print(v, k); print('   ', ex[k][1:])
