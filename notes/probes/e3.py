from common import *
w = World()
a,b,c,x = Tag('a'),Tag('b'),Tag('c'),Tag('x')
def attempt(label, f):
    try:
        r = f(); print(label, '->', r)
    except Exception as e:
        print(label, 'RAISED', type(e).__name__, str(e)[:300])
ref = ColumnExpression.reference
S = w.sql_leaf('S',[a,b,c],[(1,1,5),(1,2,4),(2,1,3),(3,3,3)])
st = lambda t, asc=True: SortTerm(ref(t), asc)
# 6
r6 = S.sorted([st(b)]).with_only_columns({a,c}).without_duplicates().with_only_columns({a})
print(r6); attempt('6', lambda: (str(w.sql.to_executable(r6)), w.run_sql(r6)))
r6b = S.sorted([st(b)]).with_only_columns({a,c}).without_duplicates()[0:2].with_only_columns({a})
print(r6b); attempt('6b', lambda: (str(w.sql.to_executable(r6b)), w.run_sql(r6b)))
# 7
S2 = w.sql_leaf('S2',[a,b,c],[(7,7,7),(8,0,8)])
ch = S.chain(S2)
r7 = ch.sorted([st(b)])[0:3].with_only_columns({a})
print(r7); attempt('7', lambda: (str(w.sql.to_executable(r7)), w.run_sql(r7)))
r7b = ch.sorted([st(b)]).with_only_columns({a})
print(r7b); attempt('7b', lambda: (str(w.sql.to_executable(r7b)), w.run_sql(r7b)))
# 8 join hidden column
Lh = w.sql_leaf('Lh',[a,c],[(1,100),(2,200)])
Rh = w.sql_leaf('Rh',[a,b,c],[(1,1,-1),(2,2,-2)]).with_only_columns({a,b})
r8 = Lh.join(Rh)
print(r8, r8.columns); attempt('8', lambda: (str(w.sql.to_executable(r8)), w.run_sql(r8)))
r8b = Rh.join(Lh)
attempt('8b', lambda: (str(w.sql.to_executable(r8b)), w.run_sql(r8b)))
