from common import *
import itertools
class P(Processor):
    def __init__(self, w): self.w=w; self.calls=[]; self.n=itertools.count()
    def _table_from_rows(self, name, tags, rows):
        w=self.w
        tags=sorted(tags, key=lambda t:t.qualified_name)
        cols=[sa.Column(t.qualified_name, sa.Integer) for t in tags] or [sa.Column('IGNORED', sa.Boolean)]
        t = sa.Table(f"{name}_{next(self.n)}", w.md, *cols)
        t.create(w.conn)
        if rows:
            w.conn.execute(t.insert(), [{tg.qualified_name: r[tg] for tg in tags} if tags else {'IGNORED': True} for r in rows])
        p = sql.Payload(t); p.columns_available={tg: t.columns[tg.qualified_name] for tg in tags}
        return p
    def transfer(self, source, destination, materialize_as):
        w=self.w
        self.calls.append(('transfer', str(source), str(destination), materialize_as))
        if source.engine is w.sql and destination is w.it:
            rows = w.run_sql(source)
            tags = {t.qualified_name: t for t in source.columns}
            return iteration.RowSequence([{tags[k]: v for k, v in r.items() if k in tags} for r in rows])
        if source.engine is w.it and destination is w.sql:
            rows = list(w.it.execute(source))
            return self._table_from_rows(materialize_as or 'xfer', source.columns, rows)
        raise NotImplementedError
    def materialize(self, target, name):
        w=self.w
        self.calls.append(('materialize', str(target), name))
        if target.engine is w.it:
            return w.it.execute(target).materialized()
        rows = w.run_sql(target)
        tags = {t.qualified_name: t for t in target.columns}
        return self._table_from_rows(name, target.columns, [{tags[k]: v for k, v in r.items() if k in tags} for r in rows])
