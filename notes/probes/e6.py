from common import *
w = World()
a,b,c,x = Tag('a'),Tag('b'),Tag('c'),Tag('x')
def attempt(label, f):
    try:
        r = f(); print(label, '->', r)
    except Exception as e:
        print(label, 'RAISED', type(e).__name__, str(e)[:200])
ref = ColumnExpression.reference; lit=ColumnExpression.literal
st = lambda t, asc=True: SortTerm(ref(t), asc)
S = w.sql_leaf('S',[a,b],[(1,1),(1,2),(2,1),(-5,0),(-2,0),(4,4)])
I = w.it_leaf('I',[a,c],[(1,1),(1,2),(2,1)])
attempt('join mismatch sorted', lambda: S.join(I.sorted([st(c)])))
attempt('join mismatch', lambda: S.join(I))
attempt('join mismatch sliced', lambda: S.join(I[1:2][5:6]))
# C17 coherence
expr = ColumnExpression.function('__add__', ref(a), lit(1))
r = S.with_calculated_column(x, expr).with_only_columns({a})
print(r, '| skip_to:', r.skip_to, '| proj', r.projection)
r = S.with_calculated_column(x, expr)[0:2].with_only_columns({a})
print(r, '| skip_to:', r.skip_to, '| proj', r.projection)
# C12 ranges
for rg in [range(10,0,-2), range(-5,5,3), range(0,10,3), range(5,5), range(3,4), range(-3,4,2), range(0, -6, -1)]:
    pred = ColumnContainer.range_literal(rg).contains(ref(a))
    sqlrows = sorted(r['a'] for r in w.run_sql(S.with_rows_satisfying(pred)))
    f = w.it.convert_predicate(pred)
    pyrows = sorted(v for v in [1,1,2,-5,-2,4] if f({a:v}))
    print(rg, 'sql', sqlrows, 'py', pyrows, 'OK' if sqlrows==pyrows else 'MISMATCH')
# empty and/or
attempt('and()', lambda: w.run_sql(S.with_rows_satisfying(LogicalAnd(()))))
attempt('or()', lambda: w.run_sql(S.with_rows_satisfying(LogicalOr(()))))
attempt('not or()', lambda: w.run_sql(S.with_rows_satisfying(LogicalNot(LogicalOr(())))))
attempt('or(single)', lambda: w.run_sql(S.with_rows_satisfying(LogicalOr((ref(a).eq(lit(1)),)))))
