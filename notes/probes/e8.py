from common import *
from proc import P
class SimFault(Exception): pass
class FP(P):
    def __init__(s, w): super().__init__(w); s.fail_at=None; s.n=0
    def _maybe(s, phase):
        s.n2 = getattr(s,'n2',0)+1
        if s.fail_at == s.n2: raise SimFault(f'{phase}#{s.n2}')
    def transfer(s, source, destination, materialize_as):
        s._maybe('t.before'); out = super().transfer(source, destination, materialize_as); s._maybe('t.after'); return out
    def materialize(s, target, name):
        s._maybe('m.before'); out = super().materialize(target, name); s._maybe('m.after'); return out
def mats(r, acc=None):
    acc = [] if acc is None else acc
    if isinstance(r, Materialization): acc.append((r.name, r.payload is not None))
    for attr in ('target','lhs','rhs'):
        if hasattr(r, attr): mats(getattr(r, attr), acc)
    return acc
a,b = Tag('a'),Tag('b')
def build(w):
    S = w.sql_leaf('S',[a,b],[(1,1),(1,2),(2,1)])
    I = w.it_leaf('I',[a,b],[(5,5)])
    t = S.with_only_columns({a}).transferred_to(w.it).materialized('m1').without_duplicates().materialized('m2')
    u = I.materialized('m0') if False else I
    return t.chain(I.with_only_columns({a}).without_duplicates().materialized('m3'))
w = World(); p = FP(w); tree = build(w); p.process(tree); total = p.n2; print('crossings', total, p.calls)
for k in range(1, total+1):
    w = World(); p = FP(w); tree = build(w); p.fail_at = k
    try:
        out = p.process(tree); print(k, 'no raise')
    except SimFault as e:
        st = mats(tree)
        p.fail_at = None; before = len(p.calls)
        out = p.process(tree)
        rows = sorted(r[a] for r in w.it.execute(out))
        print(k, e, st, 'retry calls', [c[0]+':'+str(c[-1]) for c in p.calls[before:]], rows, mats(tree))
