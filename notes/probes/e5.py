from common import *
from proc import P
w = World()
a,b = Tag('a'),Tag('b')
def attempt(label, f):
    try:
        r = f(); print(label, '->', r)
    except Exception as e:
        import traceback; traceback.print_exc()
        print(label, 'RAISED', type(e).__name__, str(e)[:300])
I = w.it_leaf('I',[a,b],[(1,1),(1,2),(2,1)])
m = I.with_only_columns({a}).transferred_to(w.sql).materialized('m1')
print(m, type(m).__name__)
p = P(w)
out = p.process(m)
print('out', out); print(p.calls)
# find materialization node in m
def walk(r, d=0):
    print(' '*d, type(r).__name__, getattr(r,'name',''), 'payload' , r.payload is not None)
    for attr in ('target','lhs','rhs'):
        if hasattr(r, attr): walk(getattr(r,attr), d+1)
walk(m); print('---'); walk(out)
attempt('exec out', lambda: w.run_sql(out))
out2 = p.process(m); print(p.calls)
attempt('exec out2', lambda: w.run_sql(out2))
