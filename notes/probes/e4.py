from common import *
w = World()
# tags with colliding hashes mod 8: h=1 and h=9
a,b = Tag('a', h=1), Tag('b', h=9)
print(list({a,b}), list({b,a}), list(frozenset([a,b])), list(frozenset([b,a])))
ref = ColumnExpression.reference
def attempt(label, f):
    try:
        r = f(); print(label, '->', r)
    except Exception as e:
        print(label, 'RAISED', type(e).__name__, str(e)[:300])
S1 = w.sql_leaf('S1',[a,b],[(1,10),(2,20)])
S2 = w.sql_leaf('S2',[b,a],[(30,3),(40,4)])
print(list(S1.columns), list(S2.columns))
ch = S1.chain(S2)
attempt('chain', lambda: (str(w.sql.to_executable(ch)), w.run_sql(ch)))
# iteration engine chain is dict-based so fine. 
# A more natural way: calculation builds set(target.columns)+tag
c = Tag('c', h=17)
expr = ColumnExpression.function('__add__', ref(a), ColumnExpression.literal(1))
S3 = w.sql_leaf('S3',[a,c],[(1,10),(2,20)])
S4 = w.sql_leaf('S4',[c],[(5,),(6,)]).with_calculated_column(a, ColumnExpression.function('__add__', ref(c), ColumnExpression.literal(1)))
print(list(S3.columns), list(S4.columns))
ch2 = S3.chain(S4)
attempt('chain2', lambda: (str(w.sql.to_executable(ch2)), w.run_sql(ch2)))
