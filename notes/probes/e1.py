from common import *
import traceback
w = World()
a,b,c = Tag('a'),Tag('b'),Tag('c')
L = w.it_leaf('L',[a,b],[(1,1),(1,2),(2,1)])
def attempt(label, f):
    try:
        r = f(); print(label, '->', r)
    except Exception as e:
        print(label, 'RAISED', type(e).__name__, e)
attempt('hash sort', lambda: hash(L.sorted([SortTerm(ColumnExpression.reference(a))])))
attempt('hash plain', lambda: hash(L.with_only_columns({a})))
attempt('hash seq pred', lambda: hash(L.with_rows_satisfying(ColumnContainer.sequence([ColumnExpression.literal(1)]).contains(ColumnExpression.reference(a)))))
attempt('hash range pred', lambda: hash(L.with_rows_satisfying(ColumnContainer.range_literal(range(3)).contains(ColumnExpression.reference(a)))))
attempt('slice beyond', lambda: list(w.it.execute(L[1:3][5:7])))
attempt('slice beyond2', lambda: list(w.it.execute(L[1:3][2:])))
attempt('slice beyond3', lambda: list(w.it.execute(L[1:3][3:])))
S = w.sql_leaf('S',[a,b],[(1,1),(1,2),(2,1)])
attempt('sql slice beyond', lambda: w.run_sql(S[1:3][5:7]))
