import sys, threading, random, time, uuid
from common import *
REPO='/repo/python/lsst/daf/relation'
class Sched:
    def __init__(self, seed):
        self.rng=random.Random(seed); self.threads={}; self.sems={}; self.done=set(); self.trace=[]; self.steps=0
        self.main=threading.Semaphore(0)
    def tracer(self, frame, event, arg):
        if not frame.f_code.co_filename.startswith(REPO): return None
        frame.f_trace_opcodes=False
        return self.local
    def local(self, frame, event, arg):
        if event in ('line','opcode'):
            self.yield_point()
        return self.local
    def yield_point(self):
        me=threading.current_thread().name
        self.main.release(); self.sems[me].acquire()
    def run(self, fns):
        for i,f in enumerate(fns):
            n=f"T{i}"; self.sems[n]=threading.Semaphore(0)
            def body(f=f,n=n):
                self.sems[n].acquire()
                sys.settrace(self.tracer)
                try: f()
                finally:
                    sys.settrace(None); self.done.add(n); self.main.release()
            t=threading.Thread(target=body,name=n); self.threads[n]=t; t.start()
        live=sorted(self.threads)
        while live:
            n=self.rng.choice(live); self.trace.append(n); self.steps+=1
            self.sems[n].release(); self.main.acquire()
            live=[x for x in sorted(self.threads) if x not in self.done]
        for t in self.threads.values(): t.join()
def trial(seed):
    r=random.Random(seed)
    uuid_rng=random.Random(seed+1)
    uuid.uuid4=lambda: uuid.UUID(int=uuid_rng.getrandbits(128), version=4)
    e1=iteration.Engine(name='i1'); e2=sql.Engine(name='s')
    names=[]
    def w(e): 
        def f():
            for _ in range(3): names.append(e.get_relation_name('leaf'))
        return f
    s=Sched(seed); s.run([w(e1),w(e1),w(e2),w(e1)])
    return names, s.steps, e1.relation_name_counter


if __name__ == "__main__":
    t=time.time(); tot=0; dup=0
    for seed in range(200):
        names,steps,ctr=trial(seed); tot+=steps
        if len(set(names))!=len(names): dup+=1
        n2,s2,_=trial(seed); assert n2==names and s2==steps, "replay diverged"
    print('steps',tot,'sec',round(time.time()-t,2),'runs with duplicate names',dup, names[:2])
