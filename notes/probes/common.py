import dataclasses, sqlalchemy as sa
from lsst.daf.relation import *
from lsst.daf.relation import iteration, sql
@dataclasses.dataclass(frozen=True)
class Tag:
    qualified_name: str
    is_key: bool = True
    h: int = 0
    def __repr__(self): return self.qualified_name
    def __hash__(self): return self.h or int.from_bytes(self.qualified_name.encode(), 'little')
    def __eq__(self, o): return isinstance(o, Tag) and o.qualified_name == self.qualified_name

class World:
    def __init__(self):
        self.db = sa.create_engine("sqlite://")
        self.md = sa.MetaData()
        self.sql = sql.Engine(name="sql")
        self.it = iteration.Engine(name="it")
        self.conn = self.db.connect()
    def sql_leaf(self, name, tags, rows):
        t = sa.Table(name, self.md, *[sa.Column(tag.qualified_name, sa.Integer) for tag in tags])
        t.create(self.conn)
        if rows:
            self.conn.execute(t.insert(), [{tag.qualified_name: r[i] for i, tag in enumerate(tags)} for r in rows])
        p = sql.Payload(t)
        p.columns_available = {tag: t.columns[tag.qualified_name] for tag in tags}
        return self.sql.make_leaf(set(tags), p, name=name, min_rows=len(rows), max_rows=len(rows))
    def it_leaf(self, name, tags, rows):
        return self.it.make_leaf(set(tags), iteration.RowSequence([dict(zip(tags, r)) for r in rows]), name=name)
    def run_sql(self, rel):
        ex = self.sql.to_executable(rel)
        res = self.conn.execute(ex)
        keys = list(res.keys())
        return [dict(zip(keys, r)) for r in res]
