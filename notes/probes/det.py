import hashlib, sys
from fuzz2 import *
h = hashlib.sha256()
import common
orig = common.World.run_sql
def run_sql(self, rel):
    ex = self.sql.to_executable(rel); h.update(str(ex.compile(compile_kwargs={"literal_binds": True})).encode())
    out = orig(self, rel); h.update(repr(out).encode()); return out
common.World.run_sql = run_sql
for seed in range(300):
    try: out = run(seed)
    except Exception as e: out = ('H', repr(e))
    h.update(repr(out and out[0]).encode())
print(h.hexdigest())
