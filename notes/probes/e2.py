from common import *
w = World()
a,b,c,x = Tag('a'),Tag('b'),Tag('c'),Tag('x')
def attempt(label, f):
    try:
        r = f(); print(label, '->', r)
    except Exception as e:
        print(label, 'RAISED', type(e).__name__, e)
ref = ColumnExpression.reference
class P(Processor):
    def __init__(self, w): self.w=w; self.calls=[]
    def transfer(self, source, destination, materialize_as):
        self.calls.append(('transfer', str(source), materialize_as))
        if source.engine is w.sql and destination is w.it:
            rows = w.run_sql(source)
            tags = {t.qualified_name: t for t in source.columns}
            return iteration.RowSequence([{tags[k]: v for k, v in r.items() if k in tags} for r in rows])
        raise NotImplementedError
    def materialize(self, target, name):
        self.calls.append(('materialize', str(target), name))
        if target.engine is w.it:
            return w.it.execute(target).materialized()
        raise NotImplementedError
def rows(rel):
    p = P(w)
    out = p.process(rel)
    return [tuple(sorted((str(k),v) for k,v in r.items())) for r in w.it.execute(out)]
S = w.sql_leaf('S',[a,b],[(1,1),(1,2),(2,1)])
T = S.transferred_to(w.it)
# 3. projection through dedup
r_root = T.without_duplicates().with_only_columns({a})
r_bt = T.without_duplicates().with_only_columns({a}, preferred_engine=w.sql)
print(r_root, rows(r_root)); print(r_bt, rows(r_bt))
# 4. calculation w/ tag dropped by projection
S2 = w.sql_leaf('S2',[a,x],[(1,1),(1,2),(2,1)])
T2 = S2.transferred_to(w.it).with_only_columns({a})
expr = ColumnExpression.function('__add__', ref(a), ColumnExpression.literal(1))
attempt('calc root', lambda: rows(T2.with_calculated_column(x, expr)))
attempt('calc bt', lambda: rows(T2.with_calculated_column(x, expr, preferred_engine=w.sql)))
# same in sql engine only
attempt('calc sql', lambda: w.run_sql(S2.with_only_columns({a}).with_calculated_column(x, expr)))
# 5. join with calc tag in fixed (non-key)
v = Tag('v', is_key=False)
F = w.sql_leaf('F',[a,v],[(1,10),(2,20)])
T3 = S.transferred_to(w.it).with_only_columns({a})
T3c = w.sql_leaf('S3',[a,b],[(1,1),(2,1)]).transferred_to(w.it).with_calculated_column(v, expr)
attempt('join calc', lambda: rows(T3c.join(F, transfer=True)))
attempt('join calc nobt', lambda: rows(T3c.join(F, backtrack=False, transfer=True)))
