"""The simulated world of one run: real lsst.daf.relation engines, a real
in-memory SQLite behind DbSeam, instrumented leaf payloads, the SimProcessor
hooks, the fault controller and the ledgers.
"""
from __future__ import annotations

import hashlib
import random
import sqlite3
from collections import Counter

import sqlalchemy as sa
from lsst.daf.relation import (
    BinaryOperationRelation,
    LeafRelation,
    MarkerRelation,
    Materialization,
    Processor,
    Reordering,
    RowFilter,
    Transfer,
    UnaryOperationRelation,
    iteration,
    sql,
)
from lsst.daf.relation.iteration import MaterializedRowIterable, RowIterable, RowMapping, RowSequence

from .exprs import UDFS
from .tags import make_tags


class IdSeam:
    """IdentitySeam: what `id()` returns *inside lsst.daf.relation* is owned by the simulator.  Objects that can be
    weakly referenced get small simulated addresses from a LIFO free list that is refilled the moment an object dies,
    so that "a new object lands on the address of a dead one" - which in CPython depends on the allocator's state and is
    therefore not replayable - happens as early as possible and identically in every process.  On a library that never
    keys anything on id() of short-lived objects this changes nothing but the value of `hash(engine)`."""

    def __init__(self):
        self.table = {}
        self.free = []
        self.next = 1000
        self.reused = 0

    def __call__(self, obj):
        import weakref

        r = id(obj)
        ent = self.table.get(r)
        if ent is not None and ent[0]() is obj:
            return ent[1]
        try:
            ref = weakref.ref(obj, self._dead)
        except TypeError:
            return r
        if self.free:
            addr = self.free.pop()
            self.reused += 1
        else:
            addr = self.next
            self.next += 16
        self.table[r] = (ref, addr)
        return addr

    def _dead(self, ref):
        for r, ent in list(self.table.items()):
            if ent[0] is ref:
                del self.table[r]
                self.free.append(ent[1])
                return

    def install(self):
        import sys

        self.saved = {}
        for name, mod in list(sys.modules.items()):
            if name.startswith("lsst.daf.relation") and mod is not None:
                self.saved[name] = mod.__dict__.get("id", IdSeam)
                mod.id = self

    def uninstall(self):
        import sys

        for name, old in self.saved.items():
            mod = sys.modules.get(name)
            if mod is None:
                continue
            if old is IdSeam:
                mod.__dict__.pop("id", None)
            else:
                mod.id = old
        self.saved = {}


class SimIOError(Exception):
    """The injected fault."""

    def __init__(self, site, nth):
        super().__init__(f"injected fault at {site}#{nth}")
        self.site = site
        self.nth = nth


class SimTypeFault(SimIOError, TypeError):
    """The injected fault in the guise of a TypeError (what a user callable typically raises on a bad value)."""


class FaultCtl:
    """Counts crossings of fault sites inside the current op and fires armed ones."""

    SITES = ("leaf_iter", "udf", "udf_stop", "udf_type", "db_before", "db_mid", "db_after", "hook_before", "hook_after",
             "stream_row")

    def __init__(self):
        self.counts = Counter()
        self.armed = set()
        self.fired = []          # (site, nth) fired in the current op
        self.total_fired = Counter()
        self.total_cross = Counter()
        self.suspended = False

    def begin_op(self, faults):
        self.counts = Counter()
        self.armed = {(s, n) for s, n in (faults or [])}
        self.fired = []

    def disarm(self):
        self.armed = set()

    def cross(self, site):
        if self.suspended:
            return
        n = self.counts[site]
        self.counts[site] = n + 1
        self.total_cross[site] += 1
        if (site, n) in self.armed:
            self.armed.discard((site, n))
            self.fired.append((site, n))
            self.total_fired[site] += 1
            raise SimIOError(site, n)

    def would_fire(self, site):
        """For the DB progress handler: count a crossing, report whether to abort."""
        if self.suspended:
            return False
        n = self.counts[site]
        self.counts[site] = n + 1
        self.total_cross[site] += 1
        if (site, n) in self.armed:
            self.armed.discard((site, n))
            self.fired.append((site, n))
            self.total_fired[site] += 1
            return True
        return False


class SimRows(RowIterable):
    """Instrumented lazy leaf payload (stands for an upstream DB cursor)."""

    def __init__(self, world, lid, rows):
        self.world = world
        self.lid = lid
        self.rows = rows
        self.starts = 0
        self.yielded = 0
        self.completed = 0
        self.closed = 0

    def __iter__(self):
        self.starts += 1
        self.world.leaf_events.append(("start", self.lid))
        return self._gen()

    def _gen(self):
        try:
            for row in self.rows:
                self.world.fault.cross("leaf_iter")
                self.yielded += 1
                yield row
            self.world.fault.cross("leaf_iter")
            self.completed += 1
            self.world.leaf_events.append(("done", self.lid))
        finally:
            self.closed += 1


class SimMatRows(SimRows, MaterializedRowIterable):
    """Instrumented *sized, in-memory* user payload (MaterializedRowIterable is the documented base for those):
    `materialized()` is itself, `len()` does not iterate, everything else is inherited lazy behaviour."""

    def __len__(self):
        return len(self.rows)


class StreamRows(RowIterable):
    """Streaming result of a sql->iteration transfer: re-executes the query on
    every iteration and can fail per row."""

    def __init__(self, world, executable, tagmap):
        self.world = world
        self.executable = executable
        self.tagmap = tagmap
        self.starts = 0

    def __iter__(self):
        self.starts += 1
        rows = self.world.db_rows(self.executable, self.tagmap)
        return self._gen(rows)

    def _gen(self, rows):
        for r in rows:
            self.world.fault.cross("stream_row")
            yield r
        self.world.fault.cross("stream_row")


import dataclasses as _dc


@_dc.dataclass(frozen=True)
class SimMarker(MarkerRelation):
    """A user-defined marker relation (MarkerRelation is the library's documented extension point): adds no
    information of its own and never changes row content."""

    def __str__(self) -> str:
        return f"mark({self.target})"


class SimPinned(SimMarker):
    """A user-defined marker that declares itself *locked* (like the library's own Transfer / Materialization):
    tree-manipulation algorithms must leave it and everything upstream of it alone."""

    @property
    def is_locked(self) -> bool:
        return True

    def __str__(self) -> str:
        return f"pin({self.target})"


# ------------------------------------------------------------------ user-defined unary operations
# RowFilter and Reordering are the library's documented extension points for unary operations.  The three below have
# flags that leave no room for interpretation: a count-dependent filter, a positional filter that (like Slice) is both
# order- and count-dependent (or, where no commutation is exercised, order-dependent only), and a stable one-column
# reordering.  Only the simulated iteration engines support them.
@_dc.dataclass(frozen=True)
class SimAtLeast(RowFilter):
    """All rows if there are at least n of them, else none."""

    n: int

    def __str__(self) -> str:
        return f"atleast({self.n})"

    @property
    def is_empty_invariant(self) -> bool:
        return False

    @property
    def is_order_dependent(self) -> bool:
        return False

    @property
    def is_count_dependent(self) -> bool:
        return True

    def is_supported_by(self, engine) -> bool:
        return isinstance(engine, SimItEngine)


@_dc.dataclass(frozen=True)
class SimStride(RowFilter):
    """Rows 0, k, 2k, ... of the target."""

    k: int
    count_dep: bool = True

    def __str__(self) -> str:
        return f"stride({self.k})"

    @property
    def is_empty_invariant(self) -> bool:
        return True

    @property
    def is_order_dependent(self) -> bool:
        return True

    @property
    def is_count_dependent(self) -> bool:
        return self.count_dep

    def is_supported_by(self, engine) -> bool:
        return isinstance(engine, SimItEngine)


@_dc.dataclass(frozen=True)
class SimOrderBy(Reordering):
    """Stable sort by one integer column."""

    tag: object
    descending: bool = False

    def __str__(self) -> str:
        return f"orderby({'-' if self.descending else ''}{self.tag})"

    @property
    def columns_required(self):
        return frozenset({self.tag})

    def is_supported_by(self, engine) -> bool:
        return isinstance(engine, SimItEngine)


class _CustomRows(RowIterable):
    """Lazy result of a user-defined operation: nothing upstream is touched before iteration."""

    def __init__(self, operation, target_rows):
        self.operation = operation
        self.target_rows = target_rows

    def __iter__(self):
        op = self.operation
        if isinstance(op, SimStride):
            for i, row in enumerate(self.target_rows):
                if i % op.k == 0:
                    yield row
        elif isinstance(op, SimAtLeast):
            rows = list(self.target_rows)
            if len(rows) >= op.n:
                yield from rows
        elif isinstance(op, SimOrderBy):
            rows = list(self.target_rows)
            rows.sort(key=lambda r: r[op.tag], reverse=op.descending)
            yield from rows
        else:  # pragma: no cover
            raise TypeError(op)


@_dc.dataclass(repr=False, eq=False, kw_only=True)
class SimItEngine(iteration.Engine):
    """iteration.Engine with the documented hook for user-defined unary operations implemented."""

    def apply_custom_unary_operation(self, operation, target):
        if isinstance(operation, (SimAtLeast, SimStride, SimOrderBy)):
            return _CustomRows(operation, self.execute(target))
        return super().apply_custom_unary_operation(operation, target)


class SimProcessor(Processor):
    """Concrete transfer/materialize hooks: SQLite <-> iteration, temp tables."""

    def __init__(self, world):
        self.world = world
        self.calls = []       # hook ledger: dicts
        self.active = True

    def _log(self, kind, rel, **kw):
        w = self.world
        rec = {"kind": kind, "rel": rel, "str": str(rel), "op": w.op_index, **kw}
        self.calls.append(rec)
        w.hook_events.append(rec)
        return rec

    def transfer(self, source, destination, materialize_as):
        w = self.world
        rec = self._log("transfer", source, dest=destination.name, materialize_as=materialize_as)
        w.fault.cross("hook_before")
        if isinstance(source.engine, sql.Engine):
            if w.config.get("hook_mode") == "streaming" and materialize_as is None:
                ex = w.sql.to_executable(source)
                out = StreamRows(w, ex, {t.qualified_name: t for t in source.columns})
            else:
                rows = w.run_sql_tagged(source)
                out = RowSequence(rows)
        elif isinstance(destination, sql.Engine):
            rows = list(source.engine.execute(source))
            out = w.table_from_rows(materialize_as or "xfer", source.columns, rows)
        else:
            out = source.engine.execute(source).materialized()
        w.fault.cross("hook_after")
        rec["completed"] = True
        return out

    def materialize(self, target, name):
        w = self.world
        rec = self._log("materialize", target, name=name)
        w.fault.cross("hook_before")
        if isinstance(target.engine, sql.Engine):
            rows = w.run_sql_tagged(target)
            out = w.table_from_rows(name, target.columns, rows)
        else:
            out = target.engine.execute(target).materialized()
        w.fault.cross("hook_after")
        rec["completed"] = True
        return out


class World:
    def __init__(self, config: dict, seed: int):
        self.config = config
        self.rng = random.Random(seed)          # environment PRNG (hash tables, shuffles)
        self.tags = make_tags(config.get("hash_mode", "ascii"), self.rng)
        self.fault = FaultCtl()
        self.op_index = -1
        self.leaf_events = []
        self.hook_events = []
        self.udf_calls = Counter()
        self.sqllog = []
        # engines
        self.sql = sql.Engine(name="sql")
        self.it = SimItEngine(name="it")
        self.it2 = SimItEngine(name="it2")
        self.engines = {"sql": self.sql, "it": self.it, "it2": self.it2}
        for eng in (self.it, self.it2):
            for fname in UDFS:
                if fname == "bitlen" or (fname == "only2" and eng is not self.it2):
                    continue          # a function only the upstream engine of an it2 -> it transfer knows
                eng.functions[fname] = self._make_udf(fname)
        for fname in ("inc", "dbl", "itonly"):
            self.sql.functions[fname] = self._make_sql_udf(fname)
        # database
        self._raw = sqlite3.connect(":memory:", isolation_level=None)
        self.db = sa.create_engine("sqlite://", creator=lambda: self._raw, poolclass=sa.pool.StaticPool)
        self.conn = self.db.connect().execution_options(isolation_level="AUTOCOMMIT")
        self.md = sa.MetaData()
        self.ntables = 0
        self.reverse = bool(config.get("db_reverse", False))
        self.shuffle = bool(config.get("db_shuffle", False))
        self._set_reverse(self.reverse)
        self._raw.set_progress_handler(self._progress, 25)
        self.processor = SimProcessor(self)
        self.idseam = IdSeam()
        self.idseam.install()
        self.leaves = {}       # lid -> dict(info)
        self.leaf_by_obj = {}  # id(LeafRelation) -> info (names may be shared by re-declared leaves)
        self.payload_tokens = {}
        self._keep = []

    # ---------------------------------------------------------------- udf seam
    def _make_udf(self, fname):
        f = UDFS[fname]

        def udf(x):
            self.udf_calls[fname] += 1
            self.fault.cross("udf")
            try:
                self.fault.cross("udf_stop")
            except SimIOError:
                # a user callable that lets StopIteration escape (e.g. a bare next() on a helper iterator)
                raise StopIteration("injected StopIteration from a column function") from None
            try:
                self.fault.cross("udf_type")
            except SimIOError as e:
                raise SimTypeFault(e.site, e.nth) from None
            return f(x)

        return udf

    @staticmethod
    def _make_sql_udf(fname):
        if fname == "inc":
            return lambda x: x + 1
        if fname == "itonly":
            return lambda x: x - 1
        return lambda x: x * 2

    # ----------------------------------------------------------------- db seam
    def _progress(self):
        return 1 if self.fault.would_fire("db_mid") else 0

    def _set_reverse(self, on: bool):
        self._raw.execute(f"PRAGMA reverse_unordered_selects = {'ON' if on else 'OFF'}")

    def db_exec(self, stmt, params=None):
        self.fault.cross("db_before")
        res = self.conn.execute(stmt, params) if params is not None else self.conn.execute(stmt)
        out = None
        if res.returns_rows:
            keys = list(res.keys())
            out = [dict(zip(keys, r)) for r in res]
        self.fault.cross("db_after")
        return out

    def db_rows(self, executable, tagmap):
        rows = self.db_exec(executable)
        return [{tagmap[k]: v for k, v in r.items() if k in tagmap} for r in rows]

    def run_sql(self, rel, reverse=None):
        """Compile and run a SQL-engine relation; rows keyed by column name."""
        ex = self.sql.to_executable(rel)
        return self.run_executable(ex, reverse)

    def run_executable(self, ex, reverse=None):
        if reverse is not None and reverse != self.reverse:
            self._set_reverse(reverse)
            try:
                rows = self.db_exec(ex)
            finally:
                self._set_reverse(self.reverse)
        else:
            rows = self.db_exec(ex)
        return rows

    def run_sql_tagged(self, rel):
        tagmap = {t.qualified_name: t for t in rel.columns}
        return self.db_rows(self.sql.to_executable(rel), tagmap)

    def sql_text(self, ex) -> str:
        return " ".join(str(ex.compile(dialect=self.db.dialect, compile_kwargs={"literal_binds": True})).split())

    def table_from_rows(self, name, tags, rows):
        """Create a (temp) table holding rows keyed by tag; returns a sql.Payload."""
        tags = sorted(tags, key=lambda t: t.qualified_name)
        self.ntables += 1
        tname = f"t{self.ntables}_{name}"[:60]
        cols = [sa.Column(t.qualified_name, sa.Integer) for t in tags] or [sa.Column("IGNORED", sa.Boolean)]
        table = sa.Table(tname, self.md, *cols)
        self.db_exec(sa.schema.CreateTable(table))
        rows = list(rows)
        if self.shuffle:
            self.rng.shuffle(rows)
        if rows:
            recs = [({t.qualified_name: r[t] for t in tags} if tags else {"IGNORED": True}) for r in rows]
            self.db_exec(table.insert(), recs)
        p = sql.Payload(table)
        p.columns_available = {t: table.columns[t.qualified_name] for t in tags}
        return p

    # ------------------------------------------------------------------ leaves
    def bounds(self, n, variant):
        return {
            "exact": (n, n), "loose": (max(0, n - 1), n + 2), "zeromin": (0, n),
            "unbounded": (0, None), "minonly": (n, None),
        }[variant]

    def make_leaf(self, lid, engine, cols, rows, variant="exact", payload_kind="simrows", special=None, name=None):
        """Build a leaf relation through the public API. rows: list of lists.  `name` lets a leaf be re-declared:
        a second, distinct leaf with the same engine, columns and name (hence == and equal hash) but its own rows."""
        tags = [self.tags[c] for c in cols]
        eng = self.engines[engine]
        name = name or f"L{lid}"
        info = {"lid": lid, "engine": engine, "cols": list(cols), "rows": [list(r) for r in rows], "payload": None}
        if special == "nopayload" and engine != "sql":
            # a hand-built statically empty leaf without any payload (what an engine that keeps the base-class
            # get_doomed_payload() hands out): never evaluated, must still refuse attach_payload()
            rel = LeafRelation(eng, frozenset(tags), None, name=name, min_rows=0, max_rows=0)
        elif special in ("doomed", "nopayload"):
            rel = eng.make_doomed_relation(set(tags), [f"doomed {name}"], name=name)
        elif special == "identity":
            rel = eng.make_join_identity_relation(name=name)
        elif engine == "sql":
            trows = [dict(zip(tags, r)) for r in rows]
            payload = self.table_from_rows(name, tags, trows)
            lo, hi = self.bounds(len(rows), variant)
            rel = self.sql.make_leaf(set(tags), payload, min_rows=lo, max_rows=hi, name=name)
            info["payload"] = payload
        else:
            trows = [dict(zip(tags, r)) for r in rows]
            lo, hi = self.bounds(len(rows), variant)
            if payload_kind == "seq":
                payload = RowSequence(trows)
            elif payload_kind == "map":
                # RowMapping requires unique keys: fall back to a sequence otherwise
                keyed = {tuple(r[t] for t in tags): r for r in trows}
                payload = RowMapping(tuple(tags), keyed) if len(keyed) == len(trows) else RowSequence(trows)
            elif payload_kind == "simmat":
                payload = SimMatRows(self, lid, trows)
            else:
                payload = SimRows(self, lid, trows)
            if variant == "exact" and payload_kind in ("seq", "map"):
                rel = eng.make_leaf(set(tags), payload, name=name)
            else:
                rel = LeafRelation(eng, frozenset(tags), payload, name=name, min_rows=lo, max_rows=hi)
            info["payload"] = payload
            info["trows"] = trows
        info["rel"] = rel
        self.leaves[lid] = info
        inner = rel
        while not isinstance(inner, LeafRelation):
            inner = inner.target
        self.leaf_by_obj[id(inner)] = info
        self._keep.append(inner)
        return rel

    def leaf_content_hash(self, lid):
        self.fault.suspended = True
        try:
            return self._leaf_content_hash(lid)
        finally:
            self.fault.suspended = False

    def _leaf_content_hash(self, lid):
        info = self.leaves[lid]
        p = info["payload"]
        h = hashlib.sha1()
        if p is None:
            return "none"
        if isinstance(p, sql.Payload):
            rows = self.conn.execute(sa.select(p.from_clause)).fetchall()
            h.update(repr(sorted(tuple(r) for r in rows)).encode())
            h.update(repr(sorted(t.qualified_name for t in p.columns_available)).encode())
            h.update(repr(len(p.where)).encode())
        else:
            rows = p.rows if not isinstance(p, RowMapping) else list(p.rows.values())
            h.update(repr([sorted((t.qualified_name, v) for t, v in r.items()) for r in rows]).encode())
        return h.hexdigest()[:12]

    # ------------------------------------------------------------ payload ids
    def token(self, payload):
        if payload is None:
            return None
        k = id(payload)
        if k not in self.payload_tokens:
            self.payload_tokens[k] = len(self.payload_tokens) + 1
            self._keep.append(payload)
        return self.payload_tokens[k]

    def close(self):
        self.idseam.uninstall()
        try:
            self.conn.close()
            self.db.dispose()
            self._raw.close()
        except Exception:
            pass


# ------------------------------------------------------------------ tree walks
def children(rel):
    if isinstance(rel, UnaryOperationRelation):
        return [rel.target]
    if isinstance(rel, BinaryOperationRelation):
        return [rel.lhs, rel.rhs]
    if isinstance(rel, MarkerRelation):
        return [rel.target]
    return []


def walk(rel, seen=None):
    """Pre-order walk over target/lhs/rhs (each distinct object once)."""
    if seen is None:
        seen = set()
    stack = [rel]
    while stack:
        r = stack.pop()
        if id(r) in seen:
            continue
        seen.add(id(r))
        yield r
        stack.extend(reversed(children(r)))


def needs_processing(rel) -> bool:
    """True if the tree cannot be evaluated by its root engine alone."""
    for r in walk_live(rel):
        if isinstance(r, Transfer) and r.payload is None:
            if not (isinstance(r.engine, iteration.Engine) and isinstance(r.target.engine, iteration.Engine)):
                return True
        if isinstance(r, Materialization) and r.payload is None and isinstance(r.engine, sql.Engine):
            return True
    return False


def walk_live(rel):
    """Walk that does not descend below nodes that already carry a payload."""
    stack = [rel]
    seen = set()
    while stack:
        r = stack.pop()
        if id(r) in seen:
            continue
        seen.add(id(r))
        yield r
        if r.payload is not None:
            continue
        stack.extend(reversed(children(r)))


def tree_engines(rel) -> set:
    return {r.engine.name for r in walk(rel)}


def shape(rel) -> str:
    """Normalised shape of a library tree (node/operation types only)."""
    if isinstance(rel, UnaryOperationRelation):
        return f"{type(rel.operation).__name__}({shape(rel.target)})"
    if isinstance(rel, BinaryOperationRelation):
        return f"{type(rel.operation).__name__}({shape(rel.lhs)},{shape(rel.rhs)})"
    if isinstance(rel, Transfer):
        return f"T>{rel.destination.name}({shape(rel.target)})"
    if isinstance(rel, MarkerRelation):
        return f"{type(rel).__name__}({shape(rel.target)})"
    return "L" + rel.engine.name[0]
