"""C19: deterministic thread-schedule simulation for relation-name generation.

Real threads, exactly one runnable at a time.  `sys.settrace` *line* events
inside /repo/python/lsst/daf/relation are the pre-emption points; the baton is
passed through per-thread semaphores and a seeded PRNG (or, on replay, the
recorded choice trace) decides who resumes.  uuid4 and the clock are seeded.
"""
from __future__ import annotations

import hashlib
import json
import multiprocessing
import os
import random
import subprocess
import sys
import threading
import time
import uuid
from collections import Counter
from concurrent.futures import ProcessPoolExecutor, as_completed

from . import REPO, VERIF

REPO_PREFIX = os.path.join(REPO, "python", "lsst", "daf", "relation")
PREFIXES = ["leaf", "materialization", "m", "leaf_", "x", "p" * 40, "q" * 58, "r" * 60, "s" * 64, "long_prefix_" * 7,
            "stage1__", "__scratch__", "a_", "", "UPPER", "with space", "dash-", "0",
            "x{", "{}", "visit{{2023}}", "raw{counter}", "%s", "a.b", "@prev", "@prev"]      # "@prev": a name generated earlier


class Sim:
    def __init__(self, sc, trace=None):
        self.sc = sc
        self.rng = random.Random(sc["seed"])
        self.urng = random.Random(sc["seed"] ^ 0x5EED)
        self.trace_in = list(trace) if trace is not None else None
        self.trace_out = []
        self.events = []
        self.history = []          # (tid, engine index, prefix, name)
        self.preempt_in_getname = 0
        self.switches = 0
        self.steps = 0
        self.errors = []
        n = len(sc["threads"])
        self.sems = [threading.Semaphore(0) for _ in range(n)]
        self.finished = [False] * n
        self.current = None
        self.main_sem = threading.Semaphore(0)
        self.clock = 1_700_000_000.0

    # ------------------------------------------------------------ scheduling
    def choose(self, tid, hot):
        runnable = [i for i, f in enumerate(self.finished) if not f]
        if self.trace_in is not None:
            if self.trace_in:
                c = self.trace_in.pop(0)
                if c in runnable:
                    return c
            return tid if tid in runnable else runnable[0]
        p = self.sc["p_switch_hot"] if hot else self.sc["p_switch"]
        if len(runnable) > 1 and self.rng.random() < p:
            return self.rng.choice(runnable)
        return tid

    def yield_point(self, tid, frame):
        self.steps += 1
        hot = frame.f_code.co_name == "get_relation_name"
        self.events.append((tid, frame.f_code.co_name, frame.f_lineno - frame.f_code.co_firstlineno))
        nxt = self.choose(tid, hot)
        self.trace_out.append(nxt)
        if nxt != tid:
            self.switches += 1
            if hot:
                self.preempt_in_getname += 1
            self.current = nxt
            self.sems[nxt].release()
            self.sems[tid].acquire()

    def tracer(self, tid):
        def local(frame, event, arg):
            if event == "line":
                self.yield_point(tid, frame)
            return local

        def glob(frame, event, arg):
            if event == "call" and frame.f_code.co_filename.startswith(REPO_PREFIX):
                return local
            return None

        return glob

    # --------------------------------------------------------------- workload
    def thread_main(self, tid, engines, leaves):
        self.sems[tid].acquire()
        sys.settrace(self.tracer(tid))
        try:
            from lsst.daf.relation import iteration

            for kind, ei, prefix in self.sc["threads"][tid]:
                eng = engines[ei % len(engines)]
                if prefix == "@prev":
                    # a name this simulation generated earlier, re-used as a prefix (temp tables named after a leaf)
                    prev = [h[3] for h in self.history if isinstance(h[3], str)]
                    prefix = prev[-1] if prev else "leaf"
                try:
                    name = self.one_request(kind, ei, prefix, eng, leaves)
                except Exception as e:  # noqa  (a request that fails is an outcome to judge, not a harness error)
                    name = ("raised", type(e).__name__)
                self.history.append((tid, ei % len(engines), prefix, name))
                continue
                if kind == "getname":
                    name = eng.get_relation_name(prefix)
                elif kind == "leaf":
                    rel = eng.make_leaf(set(), iteration.RowSequence([]), name_prefix=prefix)
                    name = rel.name
                elif kind == "leafshared":
                    # several leaves over one payload object (partitions / views of one in-memory table)
                    rel = eng.make_leaf(set(), self.shared_payload, name_prefix=prefix)
                    name = rel.name
                elif kind in ("sqlleaf", "sqlmat", "sqlmat_marked"):
                    name = self.sql_request(kind, prefix)
                else:
                    rel = leaves[ei % len(leaves)].with_rows_satisfying(_false_pred()).materialized(name_prefix=prefix)
                    name = rel.name
                self.history.append((tid, ei % len(engines), prefix, name))
        except Exception as e:  # noqa
            self.errors.append(repr(e))
        finally:
            sys.settrace(None)
            self.finished[tid] = True
            runnable = [i for i, f in enumerate(self.finished) if not f]
            if runnable:
                nxt = self.choose(runnable[0], False) if self.trace_in is None else self.choose(runnable[0], False)
                if nxt not in runnable:
                    nxt = runnable[0]
                self.trace_out.append(nxt)
                self.current = nxt
                self.sems[nxt].release()
            else:
                self.main_sem.release()

    def one_request(self, kind, ei, prefix, eng, leaves):
        from lsst.daf.relation import iteration

        if kind == "getname":
            return eng.get_relation_name(prefix)
        if kind == "leaf":
            return eng.make_leaf(set(), iteration.RowSequence([]), name_prefix=prefix).name
        if kind == "leafshared":
            return eng.make_leaf(set(), self.shared_payload, name_prefix=prefix).name
        if kind == "leafmsg":
            # an auto-named leaf known to be empty that also carries diagnostic messages
            return eng.make_leaf(set(), iteration.RowSequence([]), messages=["nothing here"], name_prefix=prefix).name
        if kind in ("sqlleaf", "sqlmat", "sqlmat_marked"):
            return self.sql_request(kind, prefix, ei)
        return leaves[ei % len(leaves)].with_rows_satisfying(_false_pred()).materialized(name_prefix=prefix).name

    def sql_request(self, kind, prefix, ei=0):
        from lsst.daf.relation import Materialization, sql

        sql_engine = self.sql_engines[ei % len(self.sql_engines)]
        sql_base = self.sql_bases[ei % len(self.sql_engines)]
        if kind == "sqlleaf":
            rel = sql_engine.make_leaf(set(), self.sql_payload, name_prefix=prefix)
            while not hasattr(rel, "name"):
                rel = rel.target
            return rel.name
        base = sql_base.with_rows_satisfying(_false_pred())
        if kind == "sqlmat_marked":
            base = _marker_class()(target=base)
        rel = base.materialized(name_prefix=prefix)
        while not isinstance(rel, Materialization):
            rel = rel.target
        return rel.name

    def run(self):
        from lsst.daf.relation import iteration, sql
        import sqlalchemy

        _marker_class()          # (class creation runs library code: keep it out of the traced threads)
        self.shared_payload = iteration.RowSequence([])
        self.sql_engines = [sql.Engine(name="s0"), sql.Engine(name="s1")]
        self.sql_payload = sql.Payload(sqlalchemy.table("t"))
        self.sql_bases = [e.make_leaf(set(), self.sql_payload, name="sqlbase") for e in self.sql_engines]

        orig_uuid, orig_time, orig_ns, orig_mono = uuid.uuid4, time.time, time.time_ns, time.monotonic
        urng = self.urng

        def clock():
            step = self.sc.get("clock_steps", [0.0])
            self.clock += urng.choice(step)
            return self.clock

        uuid.uuid4 = lambda: uuid.UUID(int=urng.getrandbits(128), version=4)
        time.time = clock
        time.time_ns = lambda: int(clock() * 1e9)
        time.monotonic = clock
        try:
            engines = [iteration.Engine(name=f"e{i}") for i in range(self.sc["engines"])]
            if self.sc.get("clone") and len(engines) > 1:
                import copy
                import pickle

                # engines made by copying another engine (per-worker copies) are engines too
                engines[0].get_relation_name("warm")
                engines[1] = copy.deepcopy(engines[0]) if self.sc["clone"] == "deepcopy" else pickle.loads(pickle.dumps(engines[0]))
            leaves = [e.make_leaf(set(), iteration.RowSequence([]), name=f"base{i}") for i, e in enumerate(engines)]
            n = len(self.sc["threads"])
            ths = [threading.Thread(target=self.thread_main, args=(i, engines, leaves), daemon=True) for i in range(n)]
            for t in ths:
                t.start()
            first = self.choose(0, False)
            self.trace_out.append(first)
            self.current = first
            self.sems[first].release()
            if not self.main_sem.acquire(timeout=30):
                self.errors.append("deadlock/timeout in thread simulation")
            for t in ths:
                t.join(timeout=5)
        finally:
            uuid.uuid4, time.time, time.time_ns, time.monotonic = orig_uuid, orig_time, orig_ns, orig_mono
        return self

    # ----------------------------------------------------------------- oracle
    def violations(self):
        out = []
        seen = {}
        for tid, ei, prefix, name in self.history:
            if isinstance(name, tuple) and name and name[0] == "raised":
                out.append({"kind": "name_request_failed", "detail": {"prefix": prefix, "exception": name[1], "thread": tid}})
                continue
            if not isinstance(name, str) or not name.startswith(prefix):
                out.append({"kind": "name_prefix", "detail": {"prefix": prefix, "name": name, "thread": tid}})
            if name in seen:
                out.append({"kind": "name_dup", "detail": {"name": name, "first": seen[name], "second": (tid, ei, prefix)}})
            seen.setdefault(name, (tid, ei, prefix))
        return out

    def digest(self):
        return hashlib.sha256(json.dumps([self.events, self.history], default=str).encode()).hexdigest()


_MARKER = None


def _marker_class():
    """A user-defined MarkerRelation subclass (the documented extension point)."""
    global _MARKER
    if _MARKER is None:
        import dataclasses

        from lsst.daf.relation import MarkerRelation

        @dataclasses.dataclass(frozen=True)
        class UserMarker(MarkerRelation):
            def __str__(self):
                return f"user({self.target})"

        _MARKER = UserMarker
    return _MARKER


def _false_pred():
    from lsst.daf.relation import Predicate

    return Predicate.literal(False)


def gen_scenario(base_seed, idx, tier):
    rng = random.Random(hashlib.sha256(f"{base_seed}|C19|{idx}".encode()).digest())
    nthreads = rng.choice([1, 2, 2, 3, 4, 5])
    nreq = rng.randint(3, 8) if nthreads > 1 else rng.randint(10, 40 if tier == "quick" else 200)
    engines = rng.choice([1, 1, 2, 3])
    threads = []
    for _ in range(nthreads):
        reqs = []
        for _ in range(nreq):
            kind = rng.choice(["getname", "getname", "leaf", "mat"])
            if rng.random() < 0.25:
                kind = rng.choice(["leafshared", "leafshared", "sqlleaf", "sqlmat", "sqlmat_marked", "leafmsg"])
            prefix = rng.choice(PREFIXES[:2]) if rng.random() < 0.7 else rng.choice(PREFIXES)
            reqs.append([kind, rng.randrange(engines), prefix])
        threads.append(reqs)
    return {
        "seed": rng.getrandbits(31), "run_index": idx, "engines": engines, "threads": threads,
        "p_switch": rng.choice([0.02, 0.1, 0.3, 0.6]), "p_switch_hot": rng.choice([0.3, 0.6, 0.9]),
        "clock_steps": rng.choice([[0.0], [0.0, 0.0, 1e-6], [0.0, 1.0, -5.0], [1e-3]]),
        "clone": rng.choice([None, None, None, "deepcopy", "pickle"]),
    }


def run_scenario(sc, trace=None):
    return Sim(sc, trace).run()


def worker(base_seed, start, stride, tier, deadline, max_runs):
    agg = {"runs": 0, "steps": 0, "switches": 0, "preempt_in_getname": 0, "names": 0, "violations": [], "errors": [],
           "traces": set(), "dn": set(), "samples": [], "threads_hist": Counter()}
    idx = start
    n = 0
    while time.time() < deadline and n < max_runs:
        sc = gen_scenario(base_seed, idx, tier)
        sim = run_scenario(sc)
        agg["runs"] += 1
        agg["steps"] += sim.steps
        agg["switches"] += sim.switches
        agg["preempt_in_getname"] += sim.preempt_in_getname
        agg["names"] += len(sim.history)
        agg["threads_hist"][len(sc["threads"])] += 1
        th = hashlib.sha1(json.dumps(sim.trace_out).encode()).hexdigest()[:16]
        agg["traces"].add(th)
        if sim.preempt_in_getname:
            agg["dn"].add(th)
        if sim.errors:
            agg["errors"].append({"run_index": idx, "errors": sim.errors[:3]})
        vs = sim.violations()
        if vs and len(agg["violations"]) < 5:
            agg["violations"].append({"scenario": sc, "trace": sim.trace_out, "violation": vs[0]})
        if len(agg["samples"]) < 2 and len(sc["threads"]) > 1:
            agg["samples"].append({"scenario": sc, "names": [h[3] for h in sim.history][:6], "switches": sim.switches})
        if len(agg["violations"]) >= 3 or len(agg["errors"]) > 3:
            break
        idx += stride
        n += 1
    return agg


def minimise(item):
    """Drop requests / threads while the same violation kind persists (seed-driven schedule)."""
    sc, kind = item["scenario"], item["violation"]["kind"]

    def fails(c):
        try:
            return any(v["kind"] == kind for v in run_scenario(c).violations())
        except Exception:
            return False

    import copy

    cur = copy.deepcopy(sc)
    changed = True
    while changed:
        changed = False
        for t in range(len(cur["threads"])):
            for r in range(len(cur["threads"][t]) - 1, -1, -1):
                c = copy.deepcopy(cur)
                del c["threads"][t][r]
                if fails(c):
                    cur = c
                    changed = True
        for t in range(len(cur["threads"]) - 1, -1, -1):
            if not cur["threads"][t] and len(cur["threads"]) > 1:
                c = copy.deepcopy(cur)
                del c["threads"][t]
                if fails(c):
                    cur = c
                    changed = True
    sim = run_scenario(cur)
    return cur, sim.trace_out, [v for v in sim.violations() if v["kind"] == kind][0]


def replay(path):
    rep = json.load(open(path))
    sim = run_scenario(rep["scenario"], trace=rep["trace"])
    vs = sim.violations()
    print("replay digest", sim.digest()[:16])
    for v in vs[:3]:
        print("  violation:", json.dumps(v))
    if any(v["kind"] == rep["signature"]["kind"] for v in vs):
        print(f"REPRODUCED property=C19 kind={rep['signature']['kind']}")
        return 1
    print("NOT-REPRODUCED")
    return 3


def run_check(tier, base_seed, budget_s=None):
    t0 = time.time()
    nproc = int(os.environ.get("RELSIM_NPROC", "16"))
    budget_s = budget_s if budget_s is not None else (15 if tier == "quick" else 300)
    deadline = t0 + budget_s
    max_runs = int(os.environ.get("RELSIM_MAX_RUNS", "1000000000"))
    tot = None
    fail = None
    ctx = multiprocessing.get_context("fork")
    with ProcessPoolExecutor(max_workers=nproc, mp_context=ctx) as ex:
        futs = [ex.submit(worker, base_seed, k, nproc, tier, deadline, -(-max_runs // nproc)) for k in range(nproc)]
        for fu in as_completed(futs, timeout=budget_s + 300):
            try:
                a = fu.result()
            except Exception as e:
                fail = f"worker failed {e!r}"
                continue
            if tot is None:
                tot = a
            else:
                for k, v in a.items():
                    if isinstance(v, (int, float)):
                        tot[k] += v
                    elif isinstance(v, set):
                        tot[k] |= v
                    elif isinstance(v, Counter):
                        tot[k].update(v)
                    else:
                        tot[k] = (tot[k] + v)[:6]
    wall = time.time() - t0
    status = 0
    nv = 0
    for n, item in enumerate(tot["violations"][:2]):
        sc, trace, v = minimise(item)
        path = os.path.join(os.environ.get("RELSIM_REPLAY_DIR", os.path.join(VERIF, "replays")), f"C19_{tier}_{base_seed}_{n}.json")
        os.makedirs(os.path.dirname(path), exist_ok=True)
        json.dump({"property": "C19", "signature": {"kind": v["kind"]}, "violation": v, "scenario": sc, "trace": trace},
                  open(path, "w"), indent=1)
        p = subprocess.run([sys.executable, "-m", "relsim.cli", "replay", path], cwd=VERIF,
                           env=dict(os.environ, PYTHONHASHSEED="1"), capture_output=True, text=True, timeout=120)
        if "REPRODUCED" in p.stdout and "NOT-REPRODUCED" not in p.stdout:
            print(f"VIOLATION property=C19 replay={path}")
            print("  " + json.dumps(v)[:300])
            status = 1
            nv += 1
        else:
            fail = f"replay {path} did not reproduce in a fresh interpreter"
    if tot["errors"]:
        fail = f"errors inside simulated threads: {tot['errors'][:2]}"
    ev = {
        "property_id": "C19", "tier": tier, "seed": base_seed, "level": "exploration", "wall_s": round(time.time() - t0, 2),
        "violations": nv,
        "coverage": {
            "evaluations": max(1, tot["names"]),
            "distinct_nontrivial": len(tot["dn"]),
            "rule": "evaluations = names requested; a case = one simulated multi-thread run; distinct = thread-choice trace "
                    "(sequence of scheduler decisions at line-level pre-emption points); non-trivial = at least one pre-emption "
                    "landed inside get_relation_name (between formatting the name and incrementing the counter, or around them)",
            "samples": tot["samples"][:2],
            "runs": tot["runs"], "runs_per_hour": int(tot["runs"] / max(wall, 1e-6) * 3600),
            "seeds": f"VERIF_SEED={base_seed}; run i generated from sha256(seed|C19|i)",
            "sim_steps": tot["steps"], "simulated_time": "seeded stepping clock (stalls, jumps, backwards steps); nothing in the "
                                                         "library reads it, so time only matters to mutants",
            "context_switches": tot["switches"], "preemptions_inside_get_relation_name": tot["preempt_in_getname"],
            "distinct_schedules": len(tot["traces"]), "threads_per_run": dict(tot["threads_hist"]),
            "faults_fired": {"clock_stall_or_jump": "every run draws a clock-step profile; see scenario.clock_steps"},
            "components": {"real": ["lsst.daf.relation engines, LeafRelation, materialized()", "CPython threads (one runnable at a time)"],
                           "stub": ["scheduler (sys.settrace line events + semaphores)", "seeded uuid4", "seeded clock"]},
            "exhaustive": False,
        },
        "assumptions": ["pre-emption at line granularity inside lsst.daf.relation (opcode granularity is not replayable across "
                        "interpreter warm-up); every line-level interleaving is reachable, the search samples them",
                        "uuid4 modelled as seeded 122-bit randomness"],
    }
    if not os.environ.get("RELSIM_NOEVIDENCE"):
        os.makedirs(os.path.join(VERIF, "evidence"), exist_ok=True)
        json.dump(ev, open(os.path.join(VERIF, "evidence", "C19.json"), "w"), indent=1)
    if status == 0 and fail:
        print("HARNESS-ERROR", fail)
        return 2
    if status == 0:
        print(f"OK property=C19 tier={tier} runs={tot['runs']} names={tot['names']} schedules={len(tot['traces'])} "
              f"preempt_in_getname={tot['preempt_in_getname']} wall={wall:.1f}s")
    return status
