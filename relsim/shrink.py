"""Deterministic minimisation: ddmin over ops, then over faults, then argument
simplification, while the same violation signature persists."""
from __future__ import annotations

import copy


def signature(v):
    return (v["kind"], v.get("property"), v.get("exc_type"))


def ddmin(items, test):
    """Classic ddmin; `test(sub)` is True if the failure persists."""
    n = 2
    while len(items) >= 2:
        chunk = max(1, len(items) // n)
        subsets = [items[i:i + chunk] for i in range(0, len(items), chunk)]
        reduced = False
        for i in range(len(subsets)):
            comp = [x for j, s in enumerate(subsets) if j != i for x in s]
            if comp and test(comp):
                items = comp
                n = max(n - 1, 2)
                reduced = True
                break
        if not reduced:
            if n >= len(items):
                break
            n = min(len(items), n * 2)
    return items


APPENDING = {"leaf", "calc", "proj", "sel", "dedup", "sort", "slice", "chain", "join", "mat", "xfer", "process", "mark", "custom", "twin",
             }
REFS = ("t", "l", "r")


def remove_renumber(ops, j):
    """Remove ops[j]; if it appended a pool entry, renumber later references so
    that they keep pointing at the same relations."""
    op = ops[j]
    out = [dict(o) for o in ops[:j]]
    if op["k"] not in APPENDING:
        return out + [dict(o) for o in ops[j + 1:]]
    k = sum(1 for o in ops[:j] if o["k"] in APPENDING)
    repl = op.get("t", op.get("l", 0))
    if not isinstance(repl, int) or repl >= k:
        repl = 0
    for o in ops[j + 1:]:
        o = dict(o)
        for f in REFS:
            if isinstance(o.get(f), int):
                if o[f] > k:
                    o[f] -= 1
                elif o[f] == k:
                    o[f] = repl
        out.append(o)
    return out


def shrink(scenario, fails, budget=400):
    """fails(scenario) -> bool.  Returns a minimised scenario."""
    calls = [0]

    def t(sc):
        calls[0] += 1
        if calls[0] > budget:
            return False
        return fails(sc)

    sc = copy.deepcopy(scenario)
    # 1. ops
    ops = ddmin(sc["ops"], lambda sub: t({**sc, "ops": sub}))
    sc["ops"] = ops
    # 2. one-at-a-time removal (ddmin leftovers)
    i = len(sc["ops"]) - 1
    while i >= 0 and len(sc["ops"]) > 1:
        cand = remove_renumber(sc["ops"], i)
        if t({**sc, "ops": cand}):
            sc["ops"] = cand
        else:
            cand = sc["ops"][:i] + sc["ops"][i + 1:]
            if t({**sc, "ops": cand}):
                sc["ops"] = cand
        i -= 1
    # 3. faults
    for i, op in enumerate(sc["ops"]):
        if op.get("faults"):
            for f in list(op["faults"]):
                cand = copy.deepcopy(sc)
                cand["ops"][i]["faults"] = [x for x in op["faults"] if x != f]
                if not cand["ops"][i]["faults"]:
                    del cand["ops"][i]["faults"]
                if t(cand):
                    sc = cand
                    op = sc["ops"][i]
    # 4. config simplification
    for key, simple in (("hash_mode", "ascii"), ("db_reverse", False), ("db_shuffle", False), ("hook_mode", "eager")):
        if sc["config"].get(key) != simple:
            cand = copy.deepcopy(sc)
            cand["config"][key] = simple
            if t(cand):
                sc = cand
    # 5. leaf rows / flags
    for i, op in enumerate(sc["ops"]):
        if op["k"] == "leaf" and op.get("rows"):
            j = len(op["rows"]) - 1
            while j >= 0:
                cand = copy.deepcopy(sc)
                del cand["ops"][i]["rows"][j]
                if t(cand):
                    sc = cand
                j -= 1
        for fl in ("rq", "tr", "bt", "pe", "payload", "bounds"):
            if fl in sc["ops"][i]:
                cand = copy.deepcopy(sc)
                del cand["ops"][i][fl]
                if t(cand):
                    sc = cand
    return sc, calls[0]
