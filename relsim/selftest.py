"""Determinism and sensitivity self-tests (development tooling, not a registered check).

  python -m relsim.cli selftest determinism [N]   same run twice in-process, again in fresh interpreters
                                                   under other PYTHONHASHSEEDs, digests must match
  python -m relsim.cli selftest digests <prop> <n> print run digests (used by `determinism`)
  python -m relsim.cli selftest mutants [name...]  apply each committed mutant to a scratch copy of /repo/python,
                                                   check that the test suite still passes and that the matching
                                                   quick check reports a VIOLATION
"""
from __future__ import annotations

import hashlib
import json
import os
import shutil
import subprocess
import sys
import tempfile

from . import VERIF


def run_digests(prop, n, base_seed=12345):
    from .profiles import PROFILES
    from .runner import crossings, execute, make_scenario, place_faults

    out = []
    if prop == "C19":
        from .threadsim import gen_scenario, run_scenario

        for i in range(n):
            out.append(run_scenario(gen_scenario(base_seed, i, "quick")).digest()[:16])
        return out
    profile = PROFILES[prop]
    for i in range(n):
        sc, rng = make_scenario(profile, base_seed, i, "quick")
        run = execute(profile, sc, frozenset(), count_mode=True)
        d = run.digest()[:12]
        if profile.fault_sites:
            cr = crossings(run, profile.fault_sites)
            if cr:
                sc2 = place_faults(sc, [cr[(i * 7919) % len(cr)]])
                d += execute(profile, sc2, frozenset()).digest()[:8]
        out.append(d)
    return out


def determinism(n=150):
    from .profiles import PROFILES

    props = sorted(PROFILES) + ["C19"]
    bad = 0
    for prop in props:
        a = run_digests(prop, n)
        b = run_digests(prop, n)
        if a != b:
            print(f"NONDETERMINISTIC in-process {prop}: {sum(x != y for x, y in zip(a, b))}/{n} runs differ")
            bad += 1
            continue
        for hs in ("1", "77"):
            env = dict(os.environ, PYTHONHASHSEED=hs)
            p = subprocess.run([sys.executable, "-m", "relsim.cli", "selftest", "digests", prop, str(n)], cwd=VERIF, env=env,
                               capture_output=True, text=True, timeout=900)
            try:
                c = json.loads(p.stdout.strip().splitlines()[-1])
            except Exception:
                print(f"FAILED fresh interpreter {prop}: {p.stderr[-500:]}")
                bad += 1
                break
            if c != a:
                diff = [i for i, (x, y) in enumerate(zip(a, c)) if x != y]
                print(f"NONDETERMINISTIC fresh-interpreter PYTHONHASHSEED={hs} {prop}: runs {diff[:10]} differ")
                bad += 1
                break
        else:
            print(f"deterministic {prop}: {n} runs x (2 in-process + 2 fresh interpreters)  {hashlib.sha1(''.join(a).encode()).hexdigest()[:10]}")
    return 1 if bad else 0


def load_mutants():
    with open(os.path.join(VERIF, "relsim", "mutants.json")) as f:
        return json.load(f)


def apply_mutant(root, m):
    path = os.path.join(root, "python", "lsst", "daf", "relation", m["file"])
    s = open(path).read()
    if m["old"] not in s:
        raise RuntimeError(f"mutant {m['name']}: pattern not found in {m['file']}")
    s = s.replace(m["old"], m["new"], 1)
    for x in m.get("extra", []):
        if x["old"] not in s:
            raise RuntimeError(f"mutant {m['name']}: extra pattern not found")
        s = s.replace(x["old"], x["new"], 1)
    open(path, "w").write(s)


def mutants(names):
    ms = load_mutants()
    if names:
        ms = [m for m in ms if m["name"] in names]
    results = []
    for m in ms:
        tmp = tempfile.mkdtemp(prefix="relsim_mut_", dir=os.environ.get("TMPDIR", "/tmp"))
        try:
            shutil.copytree("/repo/python", os.path.join(tmp, "python"), ignore=shutil.ignore_patterns("__pycache__", "*.egg-info"))
            shutil.copytree("/repo/tests", os.path.join(tmp, "tests"), ignore=shutil.ignore_patterns("__pycache__"))
            apply_mutant(tmp, m)
            env = dict(os.environ, PYTHONPATH=os.path.join(tmp, "python"))
            t = subprocess.run(["/venv/bin/python", "-m", "pytest", "-q", "-p", "no:cacheprovider", "-x", "tests"], cwd=tmp, env=env,
                               capture_output=True, text=True, timeout=600)
            suite_ok = t.returncode == 0
            caught = []
            for prop in m["props"]:
                env = dict(os.environ, RELSIM_REPO=tmp, RELSIM_BUDGET=str(m.get("budget", 20)), RELSIM_NOEVIDENCE="1",
                           RELSIM_REPLAY_DIR=os.path.join(tmp, "replays"))
                p = subprocess.run(["./check", prop, "quick"], cwd=VERIF, env=env, capture_output=True, text=True, timeout=900)
                if p.returncode == 1 and "VIOLATION property=" + prop in p.stdout:
                    caught.append(prop)
                elif p.returncode not in (0, 1):
                    caught.append(prop + ":harness-error")
            status = "CAUGHT" if set(m["props"]) <= set(caught) else ("PARTIAL" if caught else "MISSED")
            print(f"{status:8} {m['name']:38} suite_passes={suite_ok} expected={m['props']} caught={caught}")
            results.append((m["name"], status, suite_ok))
        finally:
            shutil.rmtree(tmp, ignore_errors=True)
            for f in os.listdir(os.path.join(VERIF, "replays")) if os.path.isdir(os.path.join(VERIF, "replays")) else []:
                pass
    missed = [r for r in results if r[1] != "CAUGHT"]
    print(f"{len(results) - len(missed)}/{len(results)} mutants caught")
    return 1 if missed else 0


def workers(props=("C01", "C02", "C07", "C10"), n=400):
    """Same run indices at worker counts 1, 4 and 16 must give the same (order-independent) digest of all runs."""
    bad = 0
    for prop in props:
        seen = {}
        for nproc in (1, 4, 16):
            env = dict(os.environ, RELSIM_NPROC=str(nproc), RELSIM_MAX_RUNS=str(n), RELSIM_BUDGET="600",
                       RELSIM_EVIDENCE_DIR=tempfile.gettempdir())
            p = subprocess.run(["./check", prop, "quick"], cwd=VERIF, env=env, capture_output=True, text=True, timeout=1200)
            ev = json.load(open(os.path.join(tempfile.gettempdir(), f"{prop}.json")))
            seen[nproc] = (ev["coverage"]["runs_digest_xor"], ev["coverage"]["runs"])
        ok = len(set(seen.values())) == 1
        print(("same " if ok else "DIFFERENT ") + prop, seen)
        bad += not ok
    return 1 if bad else 0


def main(argv):
    if argv and argv[0] == "workers":
        return workers()
    if not argv or argv[0] == "determinism":
        return determinism(int(argv[1]) if len(argv) > 1 else 150)
    if argv[0] == "digests":
        print(json.dumps(run_digests(argv[1], int(argv[2]))))
        return 0
    if argv[0] == "mutants":
        return mutants(argv[1:])
    print(__doc__)
    return 2
