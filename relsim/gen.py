"""Seeded scenario generator.  A scenario is data: {seed, config, ops:[...]}.
References to earlier relations are small integers taken modulo the pool size
at execution time, so every sub-sequence of a scenario is again a scenario.

The generator keeps a *shadow pool* (columns, engine) so that most generated
operations are well-typed; the executor re-checks against the model and turns
ill-typed ones into aliases of their first operand.
"""
from __future__ import annotations

from .tags import HASH_MODES, KEY_TAGS


class Shadow:
    __slots__ = ("cols", "eng", "pending", "nrows", "mat", "multi", "hidden", "leaves", "compound", "terms")

    def __init__(self, cols, eng, pending=False, nrows=3, mat=False, multi=False, hidden=(), leaves=(), compound=False):
        self.cols = set(cols)
        self.hidden = set(hidden)
        self.leaves = frozenset(leaves)       # leaf tables read by this relation (to steer away from known findings)
        self.compound = compound              # root is a chain (UNION)
        self.terms = None                     # terms of the sort that produced this entry (if any)
        self.eng = eng
        self.pending = pending
        self.nrows = nrows
        self.mat = mat
        self.multi = multi

    def copy(self, **kw):
        s = Shadow(self.cols, self.eng, self.pending, self.nrows, self.mat, self.multi, self.hidden, self.leaves, self.compound)
        s.terms = self.terms              # (the most recent sort upstream: later sorts may relate to it)
        for k, v in kw.items():
            setattr(s, k, v)
        return s


class Gen:
    def __init__(self, rng, *, engines, weights, max_ops=10, nleaves=(2, 3), flags_p=0.0, udf_p=0.0,
                 total_sort_p=0.5, pref_engines=None, leaf_payloads=("simrows", "seq", "map"),
                 bounds=("exact",), special_leaf_p=0.0, named_mat=True, max_rows=5, itonly_p=0.0,
                 allow_pending_binary=0.05, hidden_p=0.0, zero_col_p=0.08, adjacent_p=0.0, ill_flags_p=0.5,
                 nonkey_join_p=0.0, pipeline_p=0.0, redeclare_p=0.0, stride_order_only=False, pin_p=0.0):
        self.pin_p = pin_p
        self.rng = rng
        self.engines = engines
        self.weights = weights
        self.max_ops = max_ops
        self.nleaves = nleaves
        self.flags_p = flags_p
        self.udf_p = udf_p
        self.itonly_p = itonly_p
        self.total_sort_p = total_sort_p
        self.pref_engines = pref_engines or engines
        self.leaf_payloads = leaf_payloads
        self.bounds = bounds
        self.special_leaf_p = special_leaf_p
        self.named_mat = named_mat
        self.max_rows = max_rows
        self.allow_pending_binary = allow_pending_binary
        self.hidden_p = hidden_p
        self.zero_col_p = zero_col_p
        self.adjacent_p = adjacent_p
        self.nonkey_join_p = nonkey_join_p
        self.redeclare_p = redeclare_p
        self.stride_order_only = stride_order_only
        self.pipeline = rng.random() < pipeline_p      # one deep pipeline: unary operations keep extending the last entry
        self.ill_flags_p = ill_flags_p
        self.force_last = False
        self.prefer = None
        self.last_kind = None
        self.preds = []
        self.cur_eng = None
        self.pool: list[Shadow] = []
        self.ops: list[dict] = []
        self.nmat = 0
        self.ncursors = 0

    # ------------------------------------------------------------ expressions
    def expr(self, cols, depth=2, need_ref=False):
        r = self.rng
        cols = sorted(cols)
        if depth <= 0 or r.random() < 0.35:
            if cols and (need_ref or r.random() < 0.7):
                return ["ref", r.choice(cols)]
            return ["lit", r.randint(-2, 3)]
        k = r.random()
        if k < 0.15:
            return ["neg", self.expr(cols, depth - 1, need_ref)]
        if k < 0.15 + self.udf_p:
            name = "itonly" if r.random() < self.itonly_p else r.choice(["inc", "dbl"])
            if self.cur_eng == "it2" and r.random() < 0.4:
                name = "only2"
            elif self.cur_eng in ("it", "it2") and r.random() < 0.25:
                name = "bitlen"     # a method of the column value, not a function any engine knows
            if name == "itonly" and r.random() < 0.4:
                return ["udfu", name, self.expr(cols, depth - 1, need_ref)]     # unrestricted twin of the same function
            if name == "itonly" and r.random() < 0.3:
                # restricted function hidden below one that declares every engine type itself
                return ["udfa", r.choice(["inc", "dbl"]), ["udf", name, self.expr(cols, depth - 1, need_ref)]]
            return ["udf", name, self.expr(cols, depth - 1, need_ref)]
        op = r.choice(["add", "sub", "mul"])
        a = self.expr(cols, depth - 1, need_ref)
        b = self.expr(cols, depth - 1, False)
        return [op, a, b] if r.random() < 0.5 else [op, b, a]

    def pred(self, cols, depth=2):
        r = self.rng
        if depth == 2:
            # sometimes re-use an earlier predicate verbatim (users share predicate objects between calls)
            old = [p for p in self.preds if self._pcols(p) <= set(cols)]
            if old and r.random() < 0.15:
                return r.choice(old)
            p = self._pred(cols, depth)
            if r.random() < 0.12:
                p = self._trivial_wrap(p)
            self.preds.append(p)
            if len(self.preds) > 12:
                self.preds.pop(0)
            return p
        return self._pred(cols, depth)

    @staticmethod
    def _ecols(e):
        from .exprs import expr_cols

        return expr_cols(e)

    @staticmethod
    def _pcols(p):
        from .exprs import pred_cols

        return pred_cols(p)

    def _trivial_wrap(self, p):
        """Wrap p with operands that are trivially true / false without being plain literals at top level."""
        r = self.rng
        t_true = r.choice([["or", self._pred([], 0), ["plit", True]], ["not", ["plit", False]], ["or", ["plit", True]],
                           ["and"], ["not", ["and", ["plit", False]]]])
        t_false = r.choice([["and", self._pred([], 0), ["plit", False]], ["not", ["plit", True]], ["or"], ["plit", False]])
        k = r.random()
        if k < 0.45:
            return ["and", p, t_true] if r.random() < 0.7 else ["and", t_true, p]
        if k < 0.7:
            return ["or", p, t_false] if r.random() < 0.7 else ["or", t_false, p]
        if k < 0.85:
            return ["and", p, t_false] if r.random() < 0.5 else ["and", t_false, p]
        return ["or", t_true, p]

    def _pred(self, cols, depth=2):
        r = self.rng
        k = r.random()
        if depth <= 0 or k < 0.45:
            kind = "cmpr" if (self.itonly_p and r.random() < 0.25 * self.itonly_p) else "cmp"
            return [kind, r.choice(["eq", "ne", "lt", "le", "gt", "ge"]), self.expr(cols, 1, bool(cols)), self.expr(cols, 1)]
        if k < 0.6:
            n = r.choice([0, 1, 2, 2, 3])
            return [r.choice(["and", "or"])] + [self._pred(cols, depth - 1) for _ in range(n)]
        if k < 0.7:
            return ["not", self._pred(cols, depth - 1)]
        if k < 0.76:
            return ["plit", r.random() < 0.6]
        if k < 0.9:
            start = r.randint(0, 3)
            return ["inrange", self.expr(cols, 1, bool(cols)), start, start + r.randint(0, 5), r.randint(1, 3)]
        return ["inseq", self.expr(cols, 1, bool(cols)), [self.expr(cols, 1) for _ in range(r.randint(0, 3))]]

    def terms(self, cols):
        r = self.rng
        cols = sorted(cols)
        if not cols:
            return []
        if r.random() < self.total_sort_p:
            cs = list(cols)
            r.shuffle(cs)
            return [[["ref", c], r.random() < 0.6] for c in cs]
        n = r.randint(1, 3)
        out = []
        for _ in range(n):
            if out and r.random() < 0.15:
                e, asc = r.choice(out)
                out.append([e, asc if r.random() < 0.5 else not asc])
            else:
                out.append([self.expr(cols, 1, True), r.random() < 0.6])
        return out

    # ------------------------------------------------------------------ picks
    def pick(self, pred=None):
        r = self.rng
        n = len(self.pool)
        cand = [i for i in range(n) if pred is None or pred(self.pool[i])]
        if not cand:
            return None
        if self.prefer is not None:
            pc = [i for i in cand if self.prefer(self.pool[i])]
            cand = pc or cand
        if self.force_last or (self.pipeline and r.random() < 0.85):
            return cand[-1]
        if r.random() < 0.55:
            return cand[-1]
        return r.choice(cand)

    def flags(self, sh):
        r = self.rng
        if r.random() >= self.flags_p:
            return {}
        others = [e for e in self.pref_engines if e != sh.eng] or self.pref_engines
        out = {"pe": r.choice(others) if r.random() < 0.85 else sh.eng}
        if r.random() < 0.35:
            out["bt"] = r.random() < 0.5
        if r.random() < 0.35:
            out["tr"] = r.random() < 0.6
        if r.random() < 0.25:
            out["rq"] = r.random() < 0.6
        return out

    def _after_flags(self, sh, fl):
        """Shadow engine after a flagged unary op (a guess: only affects typing)."""
        if fl.get("pe") and fl.get("tr") and not fl.get("bt", True):
            return fl["pe"]
        return sh.eng

    # ------------------------------------------------------------------ leaves
    def leaf(self, eng=None, cols=None):
        r = self.rng
        eng = eng or r.choice(self.engines)
        if r.random() < self.special_leaf_p:
            if r.random() < 0.5:
                cols = cols if cols is not None else self._cols()
                self.ops.append({"k": "leaf", "eng": eng, "cols": sorted(cols), "rows": [],
                                 "special": "nopayload" if (eng != "sql" and r.random() < 0.3) else "doomed"})
                self.pool.append(Shadow(cols, eng, nrows=0, leaves={len(self.pool)}))
            else:
                self.ops.append({"k": "leaf", "eng": eng, "cols": [], "rows": [[]], "special": "identity"})
                self.pool.append(Shadow([], eng, nrows=1, leaves={len(self.pool)}))
            return
        cols = sorted(cols if cols is not None else self._cols())
        n = r.choice([0, 1, 2, 3, 3, 4, 5, 6, 7][: self.max_rows + 2])
        rows = []
        for _ in range(n):
            if rows and r.random() < 0.25:
                rows.append(list(r.choice(rows)))
                continue
            row = {}
            for c in cols:
                if c == "u" and "a" in row:
                    row[c] = (row["a"] * 2 + 1) % 3
                elif c == "v" and "b" in row:
                    row[c] = -row["b"]
                else:
                    row[c] = r.randint(-2, 3)
            rows.append([row[c] for c in cols])
        op = {"k": "leaf", "eng": eng, "cols": cols, "rows": rows}
        if self.redeclare_p and self.ops and r.random() < self.redeclare_p:
            # (executor: same engine / columns / name as an earlier leaf; the shadow keeps *these* columns, which is
            #  only a typing guess - the executor re-checks every operation against the model)
            prev = [o for o in self.ops if o["k"] == "leaf" and not o.get("special")]
            if prev:
                k = r.randrange(len(prev))
                op["redeclare"] = k
                cols = sorted(prev[k]["cols"])
                eng = prev[k]["eng"]
                op["cols"], op["eng"] = cols, eng
                op["rows"] = rows = [[r.randint(-2, 3) for _ in cols] for _ in rows]
        if eng != "sql":
            op["payload"] = r.choice(self.leaf_payloads)
        b = r.choice(self.bounds)
        if b != "exact":
            op["bounds"] = b
        self.ops.append(op)
        self.pool.append(Shadow(cols, eng, nrows=n, leaves={len(self.pool)}))

    def _cols(self):
        r = self.rng
        if r.random() < self.zero_col_p:
            return []
        k = r.choice([1, 2, 2, 3, 3, 4])
        cols = r.sample(KEY_TAGS, k)
        if "a" in cols and r.random() < 0.3:
            cols.append("u")
        if "b" in cols and r.random() < 0.2:
            cols.append("v")
        return cols

    # --------------------------------------------------------------------- ops
    def step(self):
        r = self.rng
        kinds = list(self.weights)
        if self.ops and self.ops[-1]["k"] in ("proj", "sel", "dedup", "sort", "slice") and "pe" not in self.ops[-1] \
                and self.ops[-1]["k"] in self.weights and r.random() < 0.04:
            # the very same operation (same object, see executor.shared_apply) applied twice in a row
            prev = self.ops[-1]
            prev["shared"] = True
            self.ops.append({**prev, "t": len(self.pool) - 1})
            self.pool.append(self.pool[-1].copy())
            return
        if self.adjacent_p and self.last_kind == "custom" and self.ops[-1]["k"] == "custom" and r.random() < self.adjacent_p:
            prev = self.ops[-1]          # the same user-defined operation (equal parameters) again, back to back
            self.ops.append({**{k: v for k, v in prev.items() if k not in ("pe", "bt", "tr", "rq")}, "t": len(self.pool) - 1})
            self.pool.append(self.pool[-1].copy())
            return
        if self.adjacent_p and self.last_kind in ("calc", "proj", "sel", "dedup", "sort", "slice") and r.random() < self.adjacent_p:
            k = self.last_kind if r.random() < 0.7 else r.choice(["proj", "slice", "sort", "sel"])
            self.force_last = True
        else:
            k = r.choices(kinds, weights=[self.weights[x] for x in kinds])[0]
        n = len(self.ops)
        getattr(self, "g_" + k)()
        self.force_last = False
        if len(self.ops) > n:
            self.last_kind = self.ops[-1]["k"]

    def g_leaf(self):
        # bias: reuse the columns of an existing entry so that chains are possible
        if self.pool and self.rng.random() < 0.5:
            sh = self.rng.choice(self.pool)
            self.leaf(eng=sh.eng if self.rng.random() < 0.8 else None, cols=[c for c in sh.cols if c in KEY_TAGS + ["u", "v"]
                                                                              and (c != "u" or "a" in sh.cols) and (c != "v" or "b" in sh.cols)])
        else:
            self.leaf()

    def g_calc(self):
        i = self.pick(lambda s: s.cols)
        if i is None:
            return
        sh = self.pool[i]
        free = [t for t in ["x", "y", "z", "w"] if t not in sh.cols]
        if self.hidden_p and self.rng.random() < self.hidden_p:
            free = [t for t in KEY_TAGS if t not in sh.cols] or free
        hid = sorted(t for t in sh.hidden if t not in sh.cols)
        if hid and self.rng.random() < 0.35:
            free = hid          # re-use the tag of a column that an upstream projection removed
        if not free:
            return
        tag = self.rng.choice(free)
        fl = self.flags(sh)
        self.cur_eng = sh.eng if not fl else None
        e = self.expr(sh.cols, 2, True)
        self.cur_eng = None
        self.ops.append({"k": "calc", "t": i, "tag": tag, "e": e, **fl})
        self.pool.append(sh.copy(cols=sh.cols | {tag}, eng=self._after_flags(sh, fl)))

    def g_proj(self):
        i = self.pick(lambda s: s.cols)
        if i is None:
            return
        sh = self.pool[i]
        cs = sorted(sh.cols)
        k = self.rng.randint(0, len(cs))
        keep = set(self.rng.sample(cs, k))
        # documented requirement: non-key columns stay with their key column
        if "u" in keep and "a" in sh.cols:
            keep.add("a")
        if "v" in keep and "b" in sh.cols:
            keep.add("b")
        fl = self.flags(sh)
        self.ops.append({"k": "proj", "t": i, "cols": sorted(keep), **fl})
        self.pool.append(sh.copy(cols=keep, eng=self._after_flags(sh, fl), hidden=sh.hidden | (sh.cols - keep)))

    def g_sel(self):
        i = self.pick()
        if i is None:
            return
        sh = self.pool[i]
        fl = self.flags(sh)
        self.ops.append({"k": "sel", "t": i, "p": self.pred(sh.cols, 2), **fl})
        self.pool.append(sh.copy(eng=self._after_flags(sh, fl)))

    def g_dedup(self):
        i = self.pick()
        if i is None:
            return
        sh = self.pool[i]
        fl = self.flags(sh)
        self.ops.append({"k": "dedup", "t": i, **fl})
        self.pool.append(sh.copy(eng=self._after_flags(sh, fl)))

    def g_sort(self):
        i = self.pick(lambda s: s.cols)
        if i is None:
            return
        sh = self.pool[i]
        fl = self.flags(sh)
        terms = self.terms(sh.cols)
        if sh.terms and self.rng.random() < 0.35:
            # related to the sort already there: a prefix of it, an extension of it, a re-ordering, a flipped direction
            old = [list(t) for t in sh.terms if set(self._ecols(t[0])) <= sh.cols]
            k = self.rng.random()
            if old and k < 0.3:
                terms = old + terms[:1]
            elif old and k < 0.55:
                terms = old[: self.rng.randint(1, len(old))]
            elif old and k < 0.8:
                terms = old[::-1]
            elif old:
                terms = [[old[0][0], not old[0][1]]] + old[1:]
        self.ops.append({"k": "sort", "t": i, "terms": terms, **fl})
        self.pool.append(sh.copy(pending=True, eng=self._after_flags(sh, fl)))
        self.pool[-1].terms = terms

    def g_slice(self):
        i = self.pick()
        if i is None:
            return
        r = self.rng
        sh = self.pool[i]
        start = r.choice([0, 0, 1, 1, 2, 3, 4, 7])
        stop = None if r.random() < 0.3 else start + r.choice([0, 1, 1, 2, 2, 3, 4])
        if r.random() < 0.05:
            start, stop = 0, None
        fl = self.flags(sh)      # issued through Slice(...).apply(rel, preferred_engine=...)
        self.ops.append({"k": "slice", "t": i, "start": start, "stop": stop, **fl})
        self.pool.append(sh.copy(pending=False, eng=self._after_flags(sh, fl)))

    def g_chain(self):
        r = self.rng
        i = self.pick()
        if i is None:
            return
        sh = self.pool[i]
        nest_ok = r.random() < 0.15        # chains of chains hit known finding F16 in SQL: keep them rare
        if sh.compound and sh.eng == "sql" and not nest_ok:
            return
        ok = lambda s: s.cols == sh.cols and s.eng == sh.eng and (not s.pending or r.random() < self.allow_pending_binary) \
            and (nest_ok or not (s.compound and s.eng == "sql"))
        if sh.pending and r.random() >= self.allow_pending_binary:
            return
        j = self.pick(ok)
        if j is None:
            self.leaf(eng=sh.eng, cols=sh.cols)
            j = len(self.pool) - 1
        if r.random() < 0.5:
            i, j = j, i
        self.ops.append({"k": "chain", "l": i, "r": j})
        self.pool.append(sh.copy(pending=False, compound=True, leaves=self.pool[i].leaves | self.pool[j].leaves))

    def g_chain_empty(self):
        """Chain with a statically empty branch (doomed leaf), in either position."""
        r = self.rng
        i = self.pick(lambda s: not s.pending)
        if i is None:
            return
        sh = self.pool[i]
        cols = sorted(sh.cols)
        self.ops.append({"k": "leaf", "eng": sh.eng, "cols": cols, "rows": [], "special": "doomed"})
        self.pool.append(Shadow(cols, sh.eng, nrows=0))
        j = len(self.pool) - 1
        l, rr = (j, i) if r.random() < 0.5 else (i, j)
        self.ops.append({"k": "chain", "l": l, "r": rr})
        self.pool.append(sh.copy(pending=False))

    def g_roundtrip_empty(self):
        """A -> B, chained in B with a statically empty relation, transferred on (often straight back to A),
        optionally materialized, then processed: Processor's pruning of the empty branch meets transfer
        simplification / re-application."""
        r = self.rng
        i = self.pick(lambda s: not s.pending)
        if i is None or len(self.engines) < 2:
            return
        sh = self.pool[i]
        b = r.choice([e for e in self.engines if e != sh.eng])
        self.ops.append({"k": "xfer", "t": i, "to": b})
        self.pool.append(sh.copy(eng=b, pending=False, multi=True))
        k = len(self.pool) - 1
        if r.random() < 0.3:
            self.force_last = True
            getattr(self, "g_" + r.choice(["sel", "proj", "calc", "slice"]))()
            self.force_last = False
            k = len(self.pool) - 1
        cols = sorted(self.pool[k].cols)
        self.ops.append({"k": "leaf", "eng": b, "cols": cols, "rows": [], "special": "doomed"})
        self.pool.append(Shadow(cols, b, nrows=0))
        j = len(self.pool) - 1
        l, rr = (j, k) if r.random() < 0.5 else (k, j)
        self.ops.append({"k": "chain", "l": l, "r": rr})
        self.pool.append(self.pool[k].copy(pending=False))
        c = len(self.pool) - 1
        to = sh.eng if r.random() < 0.7 else r.choice([e for e in self.engines if e != b])
        self.ops.append({"k": "xfer", "t": c, "to": to})
        self.pool.append(self.pool[c].copy(eng=to))
        if r.random() < 0.4:
            self.nmat += 1
            self.ops.append({"k": "mat", "t": len(self.pool) - 1, "name": f"m{self.nmat}"})
            self.pool.append(self.pool[-1].copy(mat=True))
        self.ops.append({"k": r.choice(["process", "process", "run"]), "t": len(self.pool) - 1})
        if self.ops[-1]["k"] == "process":
            self.pool.append(self.pool[-1].copy())

    def g_reuse_mat(self):
        """Materialize something, evaluate it (the node caches its rows), build one to three further operations on top of
        the cached node (chains with it as either branch, eager operations), evaluate those, then read the cached node
        again: nothing downstream may disturb the cache."""
        r = self.rng
        if self.pick(lambda s: not s.pending) is None:
            return
        self.force_last = True
        try:
            if r.random() < 0.6:
                getattr(self, "g_" + r.choice(["dedup", "sel", "proj", "slice", "calc"]))()
            t = self.pick(lambda s: not s.pending)
            self.nmat += 1
            self.ops.append({"k": "mat", "t": t, "name": f"m{self.nmat}"})
            self.pool.append(self.pool[t].copy(mat=True))
            m = len(self.pool) - 1
            self.ops.append({"k": "run", "t": m})
            for _ in range(r.randint(1, 3)):
                k = r.choice(["chain", "chain", "dedup", "sort", "slice", "sel", "calc", "proj"])
                cur = len(self.pool) - 1
                sh = self.pool[cur]
                if k == "chain":
                    other = cur
                    if all(c in KEY_TAGS or (c == "u" and "a" in sh.cols) or (c == "v" and "b" in sh.cols) for c in sh.cols):
                        self.leaf(eng=sh.eng, cols=sorted(sh.cols))
                        if self.pool[-1].cols == sh.cols:
                            other = len(self.pool) - 1
                    l, rr = (cur, other) if r.random() < 0.7 else (other, cur)
                    self.ops.append({"k": "chain", "l": l, "r": rr})
                    self.pool.append(sh.copy(pending=False, compound=True))
                else:
                    getattr(self, "g_" + k)()
            self.ops.append({"k": "run", "t": len(self.pool) - 1})
            self.ops.append({"k": "run", "t": m})
            if "rebuild" in self.weights and r.random() < 0.5:
                # the same calls issued again from the leaves must give an equal relation, whatever has been cached since
                self.ops.append({"k": "rebuild", "t": len(self.pool) - 1})
        finally:
            self.force_last = False

    def g_flag_on_processed(self):
        """process() a multi-engine tree, apply an operation with a preferred engine to the tree it returned (so that
        backtracking meets payload-carrying transfers / materializations), and evaluate the result."""
        r = self.rng
        i = self.pick(lambda s: s.multi and not s.pending)
        if i is None:
            return
        self.ops.append({"k": "process", "t": i})
        self.pool.append(self.pool[i].copy())
        sh = self.pool[-1]
        saved = self.flags_p
        self.flags_p = 1.0
        self.force_last = True
        try:
            getattr(self, "g_" + r.choice(["sel", "sort", "proj", "calc", "dedup", "slice"]))()
        finally:
            self.flags_p = saved
            self.force_last = False
        if "diag" in self.weights and r.random() < 0.6:
            self.ops.append({"k": "diag", "t": len(self.pool) - 1, "ex": r.choice(["real", "real", "truth"])})
            return
        self.ops.append({"k": r.choice(["run", "process"]), "t": len(self.pool) - 1})
        if self.ops[-1]["k"] == "process":
            self.pool.append(self.pool[-1].copy())

    def g_marker_tower(self):
        """Two to five marker-ish steps stacked on one relation - materialize, user marker, transfer (there, on, back),
        chain with a statically empty branch - then process()/run: Processor's handling of marker stacks (where the
        payload goes, what a materialization collapses into, which transfer gets materialize_as)."""
        r = self.rng
        i = self.pick(lambda s: not s.pending)
        if i is None:
            return
        cur = i
        for _ in range(r.randint(2, 5)):
            sh = self.pool[cur]
            k = r.choice(["mat", "mat", "mark", "xfer", "xfer", "chain_empty"])
            if k == "mat":
                self.nmat += 1
                self.ops.append({"k": "mat", "t": cur, "name": f"m{self.nmat}" if r.random() < 0.8 else None})
                self.pool.append(sh.copy(mat=True))
            elif k == "mark":
                self.ops.append({"k": "mark", "t": cur})
                self.pool.append(sh.copy())
            elif k == "xfer":
                others = [e for e in self.engines if e != sh.eng]
                if not others:
                    continue
                to = r.choice(others)
                self.ops.append({"k": "xfer", "t": cur, "to": to})
                self.pool.append(sh.copy(eng=to, pending=False, multi=True))
            else:
                cols = sorted(sh.cols)
                self.ops.append({"k": "leaf", "eng": sh.eng, "cols": cols, "rows": [], "special": "doomed"})
                self.pool.append(Shadow(cols, sh.eng, nrows=0))
                j = len(self.pool) - 1
                l, rr = (j, cur) if r.random() < 0.5 else (cur, j)
                self.ops.append({"k": "chain", "l": l, "r": rr})
                self.pool.append(sh.copy(pending=False))
            cur = len(self.pool) - 1
        self.ops.append({"k": r.choice(["process", "process", "run"]), "t": cur})
        if self.ops[-1]["k"] == "process":
            self.pool.append(self.pool[cur].copy())
            if r.random() < 0.4:
                self.ops.append({"k": "process", "t": len(self.pool) - 1})
                self.pool.append(self.pool[-1].copy())

    def g_roundtrip_mat(self):
        """A -> B, materialized in B, evaluated (so the node caches its rows), transferred on - possibly through a
        third engine - back to A, evaluated again: the cached node must stay in the tree and be used."""
        r = self.rng
        i = self.pick(lambda s: not s.pending)
        if i is None or len(self.engines) < 2:
            return
        sh = self.pool[i]
        b = r.choice([e for e in self.engines if e != sh.eng])
        self.ops.append({"k": "xfer", "t": i, "to": b})
        self.pool.append(sh.copy(eng=b, pending=False, multi=True))
        self.nmat += 1
        self.ops.append({"k": "mat", "t": len(self.pool) - 1, "name": f"m{self.nmat}"})
        self.pool.append(self.pool[-1].copy(mat=True))
        m = len(self.pool) - 1
        self.ops.append({"k": r.choice(["run", "process"]), "t": m})
        if self.ops[-1]["k"] == "process":
            self.pool.append(self.pool[m].copy())
        cur = m
        others = [e for e in self.engines if e not in (sh.eng, b)]
        if others and r.random() < 0.6:
            c = r.choice(others)
            self.ops.append({"k": "xfer", "t": cur, "to": c})
            self.pool.append(self.pool[cur].copy(eng=c))
            cur = len(self.pool) - 1
        self.ops.append({"k": "xfer", "t": cur, "to": sh.eng})
        self.pool.append(self.pool[cur].copy(eng=sh.eng))
        self.ops.append({"k": "run", "t": len(self.pool) - 1})

    def g_join(self):
        r = self.rng
        i = self.pick()
        if i is None:
            return
        l = self.pool[i]
        if self.nonkey_join_p and r.random() < self.nonkey_join_p:
            # explicit max_columns naming a shared non-key column: the resolved common columns must still be keys
            cand = [k for k in range(len(self.pool)) if k != i and (self.pool[k].cols & l.cols & {"u", "v", "z", "w"})]
            if cand:
                j = r.choice(cand)
                rr = self.pool[j]
                self.ops.append({"k": "join", "l": i, "r": j, "p": None, "cmax": sorted(l.cols & rr.cols)})
                self.pool.append(Shadow(l.cols | rr.cols, rr.eng, leaves=l.leaves | rr.leaves))
                return
        self_ok = r.random() < 0.5         # (joins reading one table twice: formerly known finding F15)
        ok = lambda s: not ((s.cols & l.cols) & {"u", "v", "z", "w"}) and (not s.pending or r.random() < self.allow_pending_binary) \
            and (self_ok or not (s.leaves & l.leaves))
        j = self.pick(ok)
        if j is None:
            if len(self.pool) < 12 and r.random() < 0.5:
                self.leaf(eng=l.eng if r.random() < 0.7 else None)     # a fresh table to join with
                j = len(self.pool) - 1
                if (self.pool[j].cols & l.cols) & {"u", "v"}:
                    return
            else:
                return
        rr = self.pool[j]
        if l.eng != "sql" and rr.eng != "sql" and r.random() < 0.85:
            return                         # iteration-engine joins are known finding F19
        fl = {}
        if l.eng != rr.eng:
            if r.random() < 0.5:
                fl["bt"] = r.random() < 0.7
            if r.random() < 0.6:
                fl["tr"] = True
        p = self.pred(l.cols | rr.cols, 2) if r.random() < 0.4 else None
        if r.random() < 0.2:
            fl["cc"] = True       # Join(pred, min_columns=max_columns=<shared key columns>).partial(rhs).apply(lhs)
        elif l.eng == rr.eng and r.random() < 0.15:
            fl["direct"] = True   # Join(pred).apply(lhs, rhs): the binary entry point, unresolved common columns
        self.ops.append({"k": "join", "l": i, "r": j, "p": p, **fl})
        self.pool.append(Shadow(l.cols | rr.cols, rr.eng, leaves=l.leaves | rr.leaves))

    def g_mat(self):
        i = self.pick(lambda s: not s.pending)
        if i is None:
            return
        sh = self.pool[i]
        self.nmat += 1
        name = f"m{self.nmat}" if (self.named_mat or self.rng.random() < 0.7) else None
        self.ops.append({"k": "mat", "t": i, "name": name})
        self.pool.append(sh.copy(mat=True))

    def g_mark(self):
        i = self.pick(lambda s: not s.pending)
        if i is None:
            return
        if self.pin_p and self.rng.random() < self.pin_p:
            # a *locked* user marker, preferably in the middle of a transfer round trip that then gets materialized
            # (there -> pin -> back -> materialize): only markers between the materialization and a leaf of its engine
            sh = self.pool[i]
            others = [e for e in self.engines if e != sh.eng]
            if others and self.rng.random() < 0.7:
                self.ops.append({"k": "xfer", "t": i, "to": self.rng.choice(others)})
                self.pool.append(sh.copy(eng=self.ops[-1]["to"]))
                self.ops.append({"k": "mark", "t": len(self.pool) - 1, "pin": True})
                self.pool.append(self.pool[-1].copy())
                self.ops.append({"k": "xfer", "t": len(self.pool) - 1, "to": sh.eng})
                self.pool.append(sh.copy())
                self.nmat += 1
                self.ops.append({"k": "mat", "t": len(self.pool) - 1, "name": f"m{self.nmat}"})
                self.pool.append(sh.copy())
                return
            self.ops.append({"k": "mark", "t": i, "pin": True})
            self.pool.append(self.pool[i].copy())
            return
        self.ops.append({"k": "mark", "t": i})
        self.pool.append(self.pool[i].copy())

    def g_custom(self):
        """User-defined unary operation in an iteration engine (see world.SimAtLeast / SimStride / SimOrderBy)."""
        r = self.rng
        i = self.pick(lambda s: s.eng != "sql")
        if i is None:
            return
        sh = self.pool[i]
        k = r.choice(["atleast", "atleast", "stride", "stride", "orderby", "orderby"])
        if k == "orderby" and not sh.cols:
            k = "stride"
        op = {"k": "custom", "t": i, "op": k}
        if k == "atleast":
            op["n"] = r.choice([0, 1, 2, 2, 3, 4])
        elif k == "stride":
            op["n"] = r.choice([1, 2, 2, 3])
            op["cd"] = not (self.stride_order_only and r.random() < 0.6)
        else:
            op["col"] = r.choice(sorted(sh.cols))
            op["desc"] = r.random() < 0.4
        fl = self.flags(sh)
        if fl.get("pe") == "sql":
            # the SQL engine supports none of these: with backtracking only (nothing commutes with a user-defined
            # operation by default) the call must simply be applied where it stands
            fl.pop("tr", None)
            fl.pop("rq", None)
        op.update(fl)
        self.ops.append(op)
        self.pool.append(sh.copy(eng=self._after_flags(sh, fl)))

    def g_twin(self):
        """Rebuild a relation as an equal-but-distinct twin, then issue one and the same call on both."""
        r = self.rng
        i = self.pick(lambda s: not s.pending or r.random() < 0.3)
        if i is None:
            return
        sh = self.pool[i]
        self.ops.append({"k": "twin", "t": i})
        self.pool.append(sh.copy())
        j = len(self.pool) - 1
        self.force_last = True
        n = len(self.ops)
        try:
            getattr(self, "g_" + r.choice(["sel", "proj", "calc", "sort", "slice", "dedup"]))()
        finally:
            self.force_last = False
        if len(self.ops) == n or self.ops[-1].get("t") != j:
            return
        first = dict(self.ops[-1])
        first["t"] = i
        # original first, then the twin (the freshly generated op already targets the twin)
        last = self.ops.pop()
        shp = self.pool.pop()
        self.ops.append(first)
        self.pool.append(shp.copy())
        self.ops.append(last)
        self.pool.append(shp)

    def g_redeclared_twin(self):
        """Same-shaped subtrees over equal-but-different leaves: take a relation derived from one leaf by a short line
        of calls, declare a second leaf under the same name / engine / columns with other rows, repeat the same calls on
        it, combine the two results in one tree (chain) and evaluate: anything keyed on relation *equality* mixes
        the two up."""
        from .shrink import APPENDING

        r = self.rng
        producer = {}
        n = 0
        for oi, o in enumerate(self.ops):
            if o["k"] in APPENDING:
                producer[n] = oi
                n += 1
        if n != len(self.pool):
            return
        line_kinds = ("calc", "proj", "sel", "dedup", "sort", "slice", "xfer", "mat", "mark", "custom")
        cands = []
        for i in range(len(self.pool)):
            path = []
            j = i
            ok = True
            while True:
                o = self.ops[producer[j]]
                if o["k"] == "leaf":
                    ok = not o.get("special")
                    break
                if o["k"] not in line_kinds or not isinstance(o.get("t"), int) or o["t"] >= j or len(path) >= 4:
                    ok = False
                    break
                path.append(o)
                j = o["t"]
            if ok and path and not self.pool[i].pending:
                cands.append((i, j, path[::-1]))
        if not cands:
            return
        i, leaf_pool, path = cands[-1] if r.random() < 0.6 else r.choice(cands)
        leaf_op = self.ops[producer[leaf_pool]]
        lid = sum(1 for o in self.ops[: producer[leaf_pool]] if o["k"] == "leaf")
        cols = list(leaf_op["cols"])
        rows = [[r.randint(-2, 3) for _ in cols] for _ in range(r.choice([1, 2, 3]))]
        if "u" in cols or "v" in cols:
            return            # (keep the documented key -> non-key dependency out of this macro)
        new = {"k": "leaf", "eng": leaf_op["eng"], "cols": cols, "rows": rows, "redeclare": lid}
        if leaf_op["eng"] != "sql":
            new["payload"] = r.choice(self.leaf_payloads)
        self.ops.append(new)
        self.pool.append(self.pool[leaf_pool].copy(leaves={len(self.pool)}))
        cur = len(self.pool) - 1
        walk = leaf_pool
        for o in path:
            o2 = {k: v for k, v in o.items() if k != "shared"}
            o2["t"] = cur
            if o2["k"] == "mat" and o2.get("name") is not None:
                self.nmat += 1          # (a materialization name identifies one stored result: never shared)
                o2["name"] = f"m{self.nmat}"
            self.ops.append(o2)
            # shadow of the original step, re-targeted
            src = next(k for k in range(len(self.pool)) if producer.get(k) is not None and self.ops[producer[k]] is o)
            self.pool.append(self.pool[src].copy())
            cur = len(self.pool) - 1
        l, rr = (i, cur) if r.random() < 0.5 else (cur, i)
        self.ops.append({"k": "chain", "l": l, "r": rr})
        self.pool.append(self.pool[i].copy(pending=False, compound=True))
        self.ops.append({"k": r.choice(["run", "run", "process"]), "t": len(self.pool) - 1})
        if self.ops[-1]["k"] == "process":
            self.pool.append(self.pool[-1].copy())

    def g_ephemeral(self):
        """Two to four short-lived relations built on one pool entry, each evaluated and dropped (see executor)."""
        r = self.rng
        i = self.pick(lambda s: not s.pending)
        if i is None:
            return
        sh = self.pool[i]
        subs_list = []
        for _ in range(r.randint(2, 4)):
            n_ops, n_pool = len(self.ops), len(self.pool)
            saved_fp, self.flags_p = self.flags_p, 0.0
            self.force_last = True
            subs = []
            try:
                base = len(self.pool)
                # work on a scratch copy of the shadow so that the sub-operations are typed against the entry
                self.pool.append(sh.copy())
                for _ in range(r.randint(1, 2)):
                    m = len(self.ops)
                    getattr(self, "g_" + r.choice(["sel", "sel", "calc", "proj", "sort", "slice"]))()
                    if len(self.ops) > m and self.ops[-1].get("t") == len(self.pool) - 2:
                        o = {k: v for k, v in self.ops[-1].items() if k not in ("t", "shared")}
                        subs.append(o)
                    else:
                        break
            finally:
                self.flags_p = saved_fp
                self.force_last = False
                del self.ops[n_ops:]
                del self.pool[n_pool:]
            if subs:
                subs_list.append(subs)
        if subs_list:
            self.ops.append({"k": "ephemeral", "t": i, "subs": subs_list})

    def g_guarded(self):
        """A partial column function behind a guard: either two adjacent selections (guard, then use) which the
        library merges, a single conjunction / disjunction in guard-first order, or a guarded calculation."""
        r = self.rng
        i = self.pick(lambda s: s.eng != "sql" and (s.cols & set(KEY_TAGS)))
        if i is None:
            return
        sh = self.pool[i]
        c = r.choice(sorted(sh.cols & set(KEY_TAGS)))
        guard = ["cmp", "ne", ["ref", c], ["lit", 0]]
        use = ["cmp", r.choice(["gt", "lt", "ge"]), ["udf", "pdiv", ["ref", c]], ["lit", r.choice([-3, 1, 2])]]
        if r.random() < 0.5:
            use = ["cmp", use[1], use[3], use[2]]          # literal on the left: another textual / structural order
        if r.random() < 0.3:
            guard = ["not", ["cmp", "eq", ["ref", c], ["lit", 0]]]
        form = r.choice(["two", "two", "and", "or", "calc"])
        if form == "two":
            self.ops.append({"k": "sel", "t": i, "p": guard})
            self.pool.append(sh.copy())
            self.ops.append({"k": "sel", "t": len(self.pool) - 1, "p": use})
            self.pool.append(sh.copy())
        elif form == "and":
            self.ops.append({"k": "sel", "t": i, "p": ["and", guard, use]})
            self.pool.append(sh.copy())
        elif form == "or":
            self.ops.append({"k": "sel", "t": i, "p": ["or", ["cmp", "eq", ["ref", c], ["lit", 0]], use]})
            self.pool.append(sh.copy())
        else:
            free = [t for t in ["x", "y", "z", "w"] if t not in sh.cols]
            if not free:
                return
            self.ops.append({"k": "sel", "t": i, "p": guard})
            self.pool.append(sh.copy())
            self.ops.append({"k": "calc", "t": len(self.pool) - 1, "tag": free[0], "e": ["udf", "pdiv", ["ref", c]]})
            self.pool.append(sh.copy(cols=sh.cols | {free[0]}))
        if r.random() < 0.5:
            # a third selection on top (merges again)
            self.force_last = True
            try:
                self.g_sel()
            finally:
                self.force_last = False

    def g_xfer(self):
        i = self.pick()
        if i is None:
            return
        sh = self.pool[i]
        others = [e for e in self.engines if e != sh.eng]
        to = self.rng.choice(others) if others and self.rng.random() < 0.9 else sh.eng
        self.ops.append({"k": "xfer", "t": i, "to": to})
        self.pool.append(sh.copy(eng=to, pending=False, multi=True))

    def g_run(self):
        if not self.pool:
            return
        i = self.rng.randrange(len(self.pool)) if self.rng.random() < 0.6 else self.pick()
        self.ops.append({"k": "run", "t": i})

    def g_process(self):
        i = self.pick()
        if i is None:
            return
        self.ops.append({"k": "process", "t": i})
        self.pool.append(self.pool[i].copy())

    def g_cursor_open(self):
        i = self.pick(lambda s: s.eng != "sql")
        if i is None or self.ncursors >= 3:
            return
        self.ncursors += 1
        op = {"k": "cursor_open", "t": i}
        prev = [o for o in self.ops if o["k"] == "cursor_open"]
        if prev and self.rng.random() < 0.4:
            op = {"k": "cursor_open", "t": prev[-1]["t"], "share": True}
            self.ops.append(op)
            # two consumers of one result object, advanced alternately
            for j in range(self.rng.randint(2, 5)):
                self.ops.append({"k": "pull", "c": self.ncursors - 1 - (j % 2), "n": self.rng.choice([1, 1, 2, 10])})
            return
        self.ops.append(op)

    def g_pull(self):
        if self.ncursors:
            self.ops.append({"k": "pull", "c": self.rng.randrange(3), "n": self.rng.choice([1, 1, 2, 3, 10])})

    def g_abandon(self):
        if self.ncursors:
            self.ops.append({"k": "abandon", "c": self.rng.randrange(3)})

    def g_diag(self):
        i = self.pick()
        if i is None:
            return
        op = {"k": "diag", "t": i, "ex": self.rng.choice(["none", "truth", "truth", "real"])}
        if op["ex"] == "truth" and self.rng.random() < 0.25:
            op["fail_at"] = self.rng.choice([0, 0, 1, 2])       # the executor itself fails on its k-th call
        self.ops.append(op)

    def g_attach(self):
        i = self.pick()
        if i is None:
            return
        self.ops.append({"k": "attach", "t": i, "node": self.rng.randrange(6)})

    def g_rawtree(self):
        i = self.pick(lambda s: s.eng == "sql")
        if i is None:
            return
        self.ops.append({"k": "rawtree", "t": i})

    def g_conform_inner(self):
        i = self.pick(lambda s: s.eng == "sql")
        if i is not None:
            self.ops.append({"k": "conform_inner", "t": i, "node": self.rng.randrange(8)})

    def g_rebuild(self):
        i = self.pick()
        if i is not None:
            self.ops.append({"k": "rebuild", "t": i})

    def g_twice(self):
        i = self.pick()
        if i is not None:
            self.ops.append({"k": "twice", "t": i})

    def g_iterate(self):
        i = self.pick(lambda s: s.eng != "sql")
        if i is None:
            return
        op = {"k": "iterate", "t": i, "times": self.rng.choice([1, 2, 2, 3])}
        if self.rng.random() < 0.25:
            op["partial"] = self.rng.choice([0, 1, 2])
        self.ops.append(op)

    def g_ill(self):
        """Derive one ill-typing edit from a call the generator believes acceptable."""
        r = self.rng
        kind = r.choice(["calc", "calc", "proj", "sel", "sort", "slice", "chain", "join", "join"])
        if len(self.engines) > 1 and r.random() < 0.25:
            # ... issued on the relation a preferred-engine call has just returned (whatever backtracking rebuilt
            # must still know its own columns and engine)
            saved_fp, self.flags_p = self.flags_p, 1.0
            self.prefer = lambda s: s.multi        # (somewhere downstream of a transfer, where backtracking can act)
            m = len(self.ops)
            try:
                getattr(self, "g_" + r.choice(["calc", "calc", "proj", "sel", "sort"]))()
            finally:
                self.flags_p = saved_fp
                self.prefer = None
            if len(self.ops) > m:
                self.force_last = True
        n_ops = len(self.ops)
        n_pool = len(self.pool)
        saved_fp = self.flags_p
        self.flags_p = self.ill_flags_p
        try:
            getattr(self, "g_" + kind)()
        finally:
            self.flags_p = saved_fp
        if len(self.ops) == n_ops or self.ops[-1]["k"] != kind:
            return
        base = self.ops.pop()
        self.pool.pop()
        tgt = self.pool[base.get("t", base.get("l")) % len(self.pool)]
        missing = [c for c in ["a", "b", "c", "d", "e", "x", "y"] if c not in tgt.cols]
        if kind == "join":
            missing = [c for c in missing if c not in self.pool[base["r"] % len(self.pool)].cols]
        edit = None
        if kind == "calc":
            ch = r.choice(["missing", "dup", "unsupported"])
            if ch == "missing" and missing:
                base["e"] = ["add", base["e"], ["ref", r.choice(missing)]]
                edit = "missing"
            elif ch == "dup" and tgt.cols:
                base["tag"] = r.choice(sorted(tgt.cols))
                edit = "dup"
            elif tgt.eng == "sql":
                if r.random() < 0.5:
                    # first a *valid* call with the unrestricted twin of the same function on the same relation ...
                    free = [t for t in ["x", "y", "z", "w"] if t not in tgt.cols and t != base["tag"]]
                    if r.random() < 0.5:
                        free = [base["tag"]]     # the very same tag: the two operations compare equal
                    if free:
                        self.ops.append({"k": "calc", "t": base["t"], "tag": free[0], "e": ["udfu", "itonly", base["e"]]})
                        self.pool.append(tgt.copy(cols=tgt.cols | {free[0]}))
                # ... then the engine-restricted one, which must be rejected
                base["e"] = ["udf", "itonly", base["e"]]
                if r.random() < 0.3:    # ... also when hidden below a function that declares every engine itself
                    base["e"] = ["udfa", r.choice(["inc", "dbl"]), base["e"]]
                if base.get("pe") not in (None, "sql"):
                    if r.random() < 0.5:
                        base.pop("pe")
                    else:       # preferred engine would support it, but the operation cannot get there
                        base["bt"], base["tr"] = False, False
                edit = "unsupported"
        elif kind == "proj" and missing:
            base["cols"] = sorted(set(base["cols"]) | set(r.sample(missing, min(len(missing), r.choice([1, 2, 3])))))
            edit = "missing"
        elif kind == "sel":
            shared = [p for p in self.preds if not self._pcols(p) <= tgt.cols]
            if shared and r.random() < 0.35:
                base["p"] = r.choice(shared)       # same predicate object as an earlier, valid call
                edit = "missing"
            elif r.random() < 0.8 and missing:
                extra = ["cmp", "lt", ["ref", r.choice(missing)], ["lit", 1]]
                base["p"] = ["and", base["p"], extra] if r.random() < 0.6 else extra
                edit = "missing"
            elif tgt.eng == "sql" and tgt.cols:
                if r.random() < 0.5:
                    # first the *valid* selection through the unrestricted twin (an equal-looking operation) ...
                    self.ops.append({"k": "sel", "t": base["t"],
                                     "p": ["cmp", "gt", ["udfu", "itonly", ["ref", sorted(tgt.cols)[0]]], ["lit", 0]]})
                    self.pool.append(tgt.copy())
                    if r.random() < 0.5:
                        base["t"] = len(self.pool) - 1      # ... stacked directly on the valid twin (they would merge)
                base["p"] = ["cmp", "gt", ["udf", "itonly", ["ref", sorted(tgt.cols)[0]]], ["lit", 0]]
                if r.random() < 0.3:
                    base["p"] = ["cmp", "gt", ["udfa", "dbl", base["p"][2]], ["lit", 0]]
                if r.random() < 0.35:
                    base["p"] = ["cmpr", r.choice(["lt", "ge", "eq"]), ["ref", sorted(tgt.cols)[0]], ["lit", 0]]
                if base.get("pe") not in (None, "sql"):
                    if r.random() < 0.5:
                        base.pop("pe")
                    else:
                        base["bt"], base["tr"] = False, False
                edit = "unsupported"
        elif kind == "sort" and missing:
            base["terms"] = base["terms"] + [[["ref", r.choice(missing)], True]]
            r.shuffle(base["terms"])
            edit = "missing"
        elif kind == "slice":
            ch = r.choice(["neg", "rev", "step", "index"])
            if ch == "neg":
                base["start"] = -r.randint(1, 3)
            elif ch == "rev":
                base["start"], base["stop"] = 3, r.randint(0, 2)
            elif ch == "step":
                base["step"] = r.choice([2, 3, -1, 0])
            else:
                base["index"] = r.randint(0, 3)
            edit = ch
        elif kind == "chain":
            other = self.pool[base["r"] % len(self.pool)] if self.pool else None
            if r.random() < 0.6:
                cols = set(tgt.cols)
                if missing and r.random() < 0.5:
                    cols.add(r.choice(missing))
                elif cols:
                    cols.discard(sorted(cols)[0])
                else:
                    cols.add("a")
                self.leaf(eng=tgt.eng, cols=[c for c in cols if c in KEY_TAGS])
                if self.pool[-1].cols == tgt.cols:
                    return
                edit = "cols"
            else:
                engs = [e for e in self.engines if e != tgt.eng]
                if not engs:
                    return
                self.leaf(eng=r.choice(engs), cols=[c for c in tgt.cols if c in KEY_TAGS])
                edit = "engine"
            if r.random() < 0.5:
                base["r"] = len(self.pool) - 1
            else:
                base["r"] = base["l"]
                base["l"] = len(self.pool) - 1
        elif kind == "join":
            rr = self.pool[base["r"] % len(self.pool)]
            if r.random() < 0.6 and missing:
                base["p"] = ["cmp", "eq", ["ref", r.choice(missing)], ["lit", 0]]
                edit = "missing"
            elif r.random() < 0.4 and (missing or (tgt.cols ^ rr.cols)):
                one_sided = sorted(c for c in (tgt.cols ^ rr.cols) if c in KEY_TAGS)
                extra = r.choice(one_sided) if one_sided and r.random() < 0.7 else (r.choice(missing) if missing else None)
                if extra is None:
                    return
                base["cc"] = sorted((tgt.cols & rr.cols & set(KEY_TAGS)) | {extra})
                edit = "common"
            elif tgt.eng != rr.eng:
                base["bt"] = False
                base["tr"] = False
                edit = "engine"
        if edit is None:
            return
        self.ops.append({"k": "ill", "op": base, "edit": edit})

    # ------------------------------------------------------------------ driver
    def build(self):
        n = self.rng.randint(*self.nleaves)
        for _ in range(n):
            self.leaf()
        nops = self.rng.randint(3, self.max_ops)
        guard = 0
        while len(self.ops) < n + nops and guard < 100:
            guard += 1
            self.step()
        return self.ops


def swarm_config(rng, **over):
    cfg = {
        "hash_mode": rng.choice(HASH_MODES + ["collide8", "salted"]),
        "db_reverse": rng.random() < 0.5,
        "db_shuffle": rng.random() < 0.5,
        "hook_mode": rng.choice(["eager", "eager", "streaming"]),
    }
    cfg.update(over)
    return cfg
