"""Scenario executor: interprets a scenario (JSON op list) against a World,
maintains the history model next to the real relations and evaluates the
oracles.  Execution is a pure function of (scenario, code under test).
"""
from __future__ import annotations

import hashlib
import json
import os
import traceback
import uuid
from collections import Counter

from lsst.daf.relation import (
    ColumnError,
    Diagnostics,
    EngineError,
    LeafRelation,
    MarkerRelation,
    Materialization,
    RelationalAlgebraError,
    SortTerm,
    Transfer,
    UnaryOperationRelation,
    BinaryOperationRelation,
    iteration,
    sql,
)

from . import model as M
from .exprs import build_expr as _build_expr, build_pred as _build_pred, expr_cols, expr_udfs, pred_cols, pred_udfs, pred_trivial
from .interp import InterpError, interp
from .monitors import MON, install
from .ops_extra import ExtraOps, live_leaf_ids
from .tags import NONKEY
from .world import SimIOError, SimRows, World, children, needs_processing, shape, walk, walk_live

install()

_MEMO: dict = {}


MEMO_OFF = [False]      # ephemeral relations build fresh expression objects that die with them


def build_expr(e, tags):
    """Same JSON expression -> same library object within a run (callers share expression objects)."""
    if MEMO_OFF[0]:
        return _build_expr(e, tags)
    k = ("e", id(tags), json.dumps(e))
    if k not in _MEMO:
        _MEMO[k] = _build_expr(e, tags)
    return _MEMO[k]


def build_pred(p, tags):
    if MEMO_OFF[0]:
        return _build_pred(p, tags)
    k = ("p", id(tags), json.dumps(p))
    if k not in _MEMO:
        _MEMO[k] = _build_pred(p, tags)
    return _MEMO[k]


REPO_MARK = "/lsst/daf/relation/"


class Entry:
    __slots__ = ("rel", "mv", "op", "parents", "alias", "taint", "idx", "events", "evaluated", "all_bag_det", "lid", "eval_ok")

    def __init__(self, rel, mv, op, parents, alias=False):
        self.rel = rel
        self.mv = mv
        self.op = op
        self.parents = parents
        self.alias = alias
        self.taint = set()
        self.events = set()
        self.evaluated = False
        self.eval_ok = False
        self.lid = None
        self.all_bag_det = bool(mv.bag_det) and all(p.all_bag_det for p in parents)
        for p in parents:
            self.taint |= p.taint
            self.events |= p.events


def exc_site(e: BaseException):
    """Innermost frames inside lsst.daf.relation (function names), for recognisers."""
    tb = traceback.extract_tb(e.__traceback__)
    frames = [f"{f.filename.split(REPO_MARK)[-1]}:{f.name}" for f in tb if REPO_MARK in f.filename]
    out = frames[-4:]
    if any(f.filename.endswith("relsim/world.py") and f.name in ("transfer", "materialize") for f in tb):
        out = ["<hook>"] + out
    return out


def is_injected(e: BaseException, fired) -> bool:
    """Is e the injected fault (or a wrapper of it)?"""
    seen = 0
    while e is not None and seen < 6:
        if isinstance(e, SimIOError):
            return True
        if any(s == "db_mid" for s, _ in fired) and ("interrupted" in str(e) or "database schema has changed" in str(e)):
            # (an interrupt that lands while SQLite re-prepares a cached statement after new tables were created
            #  is reported as SQLITE_SCHEMA instead of SQLITE_INTERRUPT)
            return True
        if any(s == "udf_stop" for s, _ in fired) and (isinstance(e, StopIteration) or "StopIteration" in str(e)):
            return True
        e = e.__cause__ or e.__context__ or getattr(e, "orig", None)
        seen += 1
    return False


class Run(ExtraOps):
    def __init__(self, scenario: dict, profile, armed=frozenset(), count_mode=False):
        self.sc = scenario
        self.profile = profile
        self.cfg = scenario["config"]
        self.armed = armed
        self.count_mode = count_mode
        self.w = World(self.cfg, scenario["seed"])
        self.pool: list[Entry] = []
        self.cursors = []
        self.violations = []
        self.known_hits = Counter()
        self.log = []
        self.probes = Counter()
        self.stats = Counter()
        self.cross_counts = []
        self.shapes = set()
        self.dn = set()            # distinct-nontrivial keys (profile specific)
        self.nleaf = 0
        self.fingerprints = {}
        self.payload_ledger = {}   # id(node) -> (node, token)
        self.name_history = []
        self.mat_evals = Counter()
        self.mat_entries = {}
        self.ill_routes = set()
        self.in_recovery = False
        self.shadow = False
        self.shared_ops = {}
        self.payload_content = {}
        self._keep_nodes = []
        self.commute_matrix = Counter()
        self._uuid_orig = uuid.uuid4
        rng = self.w.rng
        uuid.uuid4 = lambda: uuid.UUID(int=rng.getrandbits(128), version=4)

    # ------------------------------------------------------------------ utils
    def close(self):
        _MEMO.clear()
        uuid.uuid4 = self._uuid_orig
        MON.active = False
        self.w.close()

    def nofault_variant_shows(self, kind, op_index):
        """Re-execute this run's scenario up to op_index with every fault removed (a nested, isolated run) and
        report whether the same kind of violation appears at the same op: used to tell an ordinary wrong result
        from one that only exists because an earlier evaluation failed half-way."""
        import copy

        sc = copy.deepcopy(self.sc)
        sc["ops"] = sc["ops"][: op_index + 1]

        def strip(o):
            o.pop("faults", None)
            if isinstance(o.get("op"), dict):
                strip(o["op"])

        for o in sc["ops"]:
            strip(o)
        saved = (MON.active, MON.commutes, MON.merges, MON.events, dict(_MEMO), uuid.uuid4)
        r = Run(sc, self.profile, armed=self.armed)
        r.shadow = True
        try:
            r.execute()
        except Exception:  # noqa
            return False
        finally:
            MON.active, MON.commutes, MON.merges, MON.events = saved[:4]
            _MEMO.clear()
            _MEMO.update(saved[4])
            uuid.uuid4 = saved[5]
        return any(v["kind"] == kind and v["op_index"] == op_index for v in r.violations) or bool(r.known_hits)

    def ref(self, r):
        if not self.pool:
            return None
        return self.pool[r % len(self.pool)]

    def logev(self, *a):
        self.log.append(a)

    def digest(self) -> str:
        return hashlib.sha256(json.dumps(self.log, sort_keys=True, default=str).encode()).hexdigest()

    def violate(self, kind, detail, entry=None, op=None, exc=None):
        v = {"kind": kind, "property": None, "op_index": self.w.op_index, "detail": detail}
        if exc is not None:
            v["exc_type"] = type(exc).__name__
            v["exc_msg"] = str(exc)[:300]
            v["exc_site"] = exc_site(exc)
        if entry is not None:
            v["tree"] = str(entry.rel)[:400]
            v["hist"] = M.hist_shape(entry.mv.hist)
        prop = v["property"] = self.profile.claim(kind, entry, self, v)
        from .known import recognise

        fid = recognise(self, v, entry, exc)
        if fid is None and entry is not None and entry.taint and kind in ("rows_mismatch", "exec_exception", "keys_mismatch"):
            fid = sorted(entry.taint)[0] + "~"
        if fid is not None:
            base = fid.rstrip("~")
            if entry is not None:
                entry.taint.add(base)
            if base in self.armed or not self.profile.known_gate or os.environ.get('RELSIM_NOGATE'):
                if prop == self.profile.prop:
                    self.known_hits[base] += 1      # would have been reported by this check
                else:
                    self.stats["known_seen:" + base] += 1
                self.logev("known", kind, base)
                return
            v["would_be_finding"] = base
        self.logev("violation", kind, prop, json.dumps(detail, default=str)[:200])
        self.violations.append(v)

    # ------------------------------------------------------------------- main
    def execute(self):
        try:
            for i, op in enumerate(self.sc["ops"]):
                self.w.op_index = i
                self.w.fault.begin_op(op.get("faults"))
                MON.reset()
                MON.active = True
                handler = getattr(self, "op_" + op["k"])
                handler(op)
                MON.active = False
                self.w.fault.disarm()
                self.cross_counts.append(dict(self.w.fault.counts))
                if self.w.fault.fired and op["k"] in self.profile.recover_kinds:
                    # bounded liveness: once faults stop, the same call succeeds and is correct
                    self.stats["recoveries"] += 1
                    self.w.fault.begin_op(None)
                    self.in_recovery = True
                    handler(op)
                    self.in_recovery = False
                self.after_op(op)
                if len(self.violations) >= 8:
                    break
        finally:
            self.close()
        return self

    def after_op(self, op):
        if self.profile.track_payloads:
            self.check_payload_ledger()
        if self.profile.track_fingerprints:
            self.check_fingerprints()

    # -------------------------------------------------------- factory plumbing
    def flags(self, op):
        pe = op.get("pe")
        kw = {}
        if pe is not None:
            kw["preferred_engine"] = self.w.engines[pe]
        if "bt" in op:
            kw["backtrack"] = bool(op["bt"])
        if "tr" in op:
            kw["transfer"] = bool(op["tr"])
        if "rq" in op:
            kw["require_preferred_engine"] = bool(op["rq"])
        return kw

    def alias(self, op, parent, why):
        e = Entry(parent.rel, parent.mv, op, [parent], alias=True)
        e.evaluated = True
        self.pool.append(e)
        self.logev(self.w.op_index, op["k"], "alias", why)
        self.stats["alias:" + why] += 1
        return None

    def allowed_exception(self, op, parents, e) -> bool:
        """Exceptions a *well-formed* request may legitimately raise."""
        if isinstance(e, RelationalAlgebraError) and not isinstance(e, (ColumnError, EngineError)):
            if "will not preserve row order" in str(e):
                self.probes["order_loss_error"] += 1
                return True
        if isinstance(e, EngineError):
            pe = op.get("pe")
            if op.get("rq") and pe is not None and not op.get("tr"):
                return True
            if op["k"] in ("join", "chain"):
                l, r = parents
                if l.mv.engine != r.mv.engine:
                    return True
            if self._uses_itonly(op):
                return True
            if op["k"] == "custom" and op.get("pe") == "sql":
                return True         # (like an engine-restricted expression: the preferred engine cannot take it)
            if op["k"] == "join" and "Joins are not supported" in str(e):
                return False
        return False

    @staticmethod
    def _uses_itonly(op):
        u = set()
        if "e" in op:
            u |= expr_udfs(op["e"])
        if op.get("p") is not None:
            u |= pred_udfs(op["p"])
        for t in op.get("terms", []):
            u |= expr_udfs(t[0])
        return "itonly" in u

    def factory(self, op, parents, call, model_fn, must_raise=None):
        """Issue a factory call that the model deems well-formed."""
        i = self.w.op_index
        try:
            rel = call()
        except SimIOError as e:
            self.logev(i, op["k"], "fault", str(e))
            return self.alias(op, parents[0], "fault")
        except Exception as e:  # noqa
            if must_raise is not None and isinstance(e, must_raise):
                self.logev(i, op["k"], "raised-as-required", type(e).__name__)
                return self.alias(op, parents[0], "required-error")
            if self.allowed_exception(op, parents, e):
                self.logev(i, op["k"], "allowed-error", type(e).__name__)
                return self.alias(op, parents[0], "allowed-error")
            kind = "unexpected_exception"
            site = " ".join(exc_site(e))
            if any(s in site for s in (":then", ":simplify")):
                kind = "merge_exception"
            elif isinstance(e, ColumnError) and op.get("pe") is not None:
                kind = "backtrack_column_error"
            ent = Entry(parents[0].rel, parents[0].mv, op, parents, alias=True)
            ent.events |= MON.events
            self.violate(kind, {"op": op, "phase": "construct"}, entry=ent, exc=e)
            self.logev(i, op["k"], "exception", type(e).__name__)
            return self.alias(op, parents[0], "exception")
        MON.active = False
        if must_raise is not None:
            ent = Entry(rel, parents[0].mv, op, parents)
            self.violate("order_loss_missing", {"op": op}, entry=ent)
        try:
            mv = model_fn(rel)
        except ZeroDivisionError:
            # the applied sequence itself evaluates a partial column function outside its domain: whatever the
            # library does with it is the caller's problem, not a property of the library
            self.logev(i, op["k"], "partial-model")
            return self.alias(op, parents[0], "partial-model")
        ent = Entry(rel, mv, op, parents)
        ent.events |= MON.events
        self.pool.append(ent)
        self.logev(i, op["k"], "ok", str(rel), list(mv.cols))
        self.check_new(ent, op, parents)
        return ent

    def _umodel(self, t, op, rel, f):
        """Model of a unary factory call, given the engine the result actually lives in."""
        v = t.mv
        eng = rel.engine.name
        pe = op.get("pe")
        if eng != v.engine:
            if not (pe is not None and eng == pe and op.get("tr")):
                self.violate("engine_mismatch", {"expected": v.engine, "got": eng, "op": op},
                             entry=Entry(rel, v, op, [t]))
            else:
                self.probes["flag_transfer_used"] += 1
            v = M.m_xfer(v, eng)
        elif pe is not None and pe != v.engine and op.get("tr") and not op.get("bt", True) and not self._is_noop(t, op):
            self.violate("transfer_flag_ignored", {"expected": pe, "got": eng, "op": op}, entry=Entry(rel, v, op, [t]))
        if op.get("rq") and pe is not None and pe != t.mv.engine and not op.get("tr") and not self._is_noop(t, op):
            before, after = self._opcount(t.rel), self._opcount(rel)
            extra = {e: after[e] - before.get(e, 0) for e in after if e != pe and after[e] > before.get(e, 0)}
            self.probes["require_flag_accepted"] += 1
            if extra:
                self.violate("require_flag_violated", {"op": op, "new_operations_outside_preferred": extra},
                             entry=Entry(rel, v, op, [t]))
        return f(v)

    @staticmethod
    def _opcount(rel):
        c = Counter()
        for n in walk(rel):
            if isinstance(n, (UnaryOperationRelation, BinaryOperationRelation)):
                c[n.engine.name] += 1
        return c

    @staticmethod
    def _is_noop(t, op):
        k = op["k"]
        if k == "proj":
            return set(op["cols"]) == set(t.mv.cols)
        if k == "sort":
            return not op["terms"]
        if k == "sel":
            return pred_trivial(op["p"]) is True
        if k == "slice":
            return op["start"] == 0 and op["stop"] is None
        return False

    # ------------------------------------------------------------- evaluation
    def evaluate(self, ent, reverse=None, via=None):
        """Evaluate a pool entry with the real engines.  Returns rows keyed by
        name, or raises."""
        w = self.w
        rel = ent.rel
        route = via or ("process" if needs_processing(rel) else "direct")
        if route == "process":
            out = w.processor.process(rel)
            self.probes["process_calls"] += 1
        else:
            out = rel
        if isinstance(out.engine, sql.Engine):
            rows = w.run_sql(out, reverse=reverse)
        else:
            from .ops_extra import uncached_iteration_mats

            mats = uncached_iteration_mats(out)
            rows = [{t.qualified_name: v for t, v in r.items()} for r in out.engine.execute(out)]
            self.check_cached(ent, mats)
        return rows, out

    def check_rows(self, ent, rows, what="rows_mismatch", relcols=None):
        mv = ent.mv
        cols = mv.cols
        # keys of every row must be exactly the relation's columns
        names = sorted(c.qualified_name for c in (relcols if relcols is not None else ent.rel.columns))
        for r in rows:
            ks = sorted(k for k in r if k != "IGNORED")
            if ks != names:
                self.violate("keys_mismatch", {"row_keys": ks, "columns": names}, entry=ent)
                return False
        if list(cols) != names:
            self.violate("columns_mismatch", {"model": list(cols), "relation": names}, entry=ent)
            return False
        st, problem = M.compare(mv, rows)
        self.stats["cmp:" + st] += 1
        if problem is not None:
            self.violate(what, problem, entry=ent)
            return False
        return True

    def check_bounds(self, ent, n, rel=None):
        rel = rel if rel is not None else ent.rel
        lo, hi = rel.min_rows, rel.max_rows
        if n < lo or (hi is not None and n > hi):
            self.violate("count_out_of_bounds", {"count": n, "min_rows": lo, "max_rows": hi}, entry=ent)
        if ent.mv.count_det:
            m = len(ent.mv.rows)
            if m < lo or (hi is not None and m > hi):
                self.violate("count_out_of_bounds", {"model_count": m, "min_rows": lo, "max_rows": hi}, entry=ent)
            if rel.is_join_identity and not (m == 1 and not ent.mv.cols):
                self.violate("flags_wrong", {"is_join_identity": True, "model_count": m}, entry=ent)

    def hist_live_leaf_ids(self, ent):
        """Leaves an evaluation of this entry may read according to its *history*: nothing upstream of a
        materialization whose node already holds its payload (whatever the library's tree looks like now)."""
        out = set()
        seen = set()
        stack = [ent]
        while stack:
            e = stack.pop()
            if id(e) in seen:
                continue
            seen.add(id(e))
            if e.lid is not None:
                out.add(e.lid)
                continue
            if e.op["k"] == "mat" and not e.alias:
                node = next((n for n in walk(e.rel) if isinstance(n, Materialization)), None)
                reg = self.mat_entries.get(getattr(node, "name", None))
                if node is not None and reg is e and node.payload is not None:
                    p = node.payload
                    if isinstance(p, SimRows):
                        out.add(p.lid)
                    continue
            stack.extend(e.parents)
        return out

    def eval_and_check(self, ent, op=None):
        """Full evaluation of one entry + comparison with the model."""
        w = self.w
        ent.evaluated = True
        self.stats["evaluations"] += 1
        sqlroot = isinstance(ent.rel.engine, sql.Engine)
        allowed = live_leaf_ids(ent.rel)
        if self.profile.track_payloads:
            allowed &= self.hist_live_leaf_ids(ent) | {lid for lid in allowed if lid not in self.w.leaves}
        starts0 = self.leaf_starts()
        ncalls = len(w.processor.calls)
        mat_before = {n.name: w.token(n.payload) for n in walk(ent.rel) if isinstance(n, Materialization)}
        try:
            rows, out = self.evaluate(ent)
        except Exception as e:  # noqa
            self.check_hook_calls(ent, w.processor.calls[ncalls:], mat_before)
            self.on_exec_exception(ent, e)
            return None
        self.check_hook_calls(ent, w.processor.calls[ncalls:], mat_before)
        self.check_hidden_leaves(ent, starts0, allowed)
        self.logev(w.op_index, "rows", hashlib.sha1(repr(rows).encode()).hexdigest()[:10])
        ent.eval_ok = True          # this very relation has been evaluated successfully at least once
        ok = self.check_rows(ent, rows)
        self.check_bounds(ent, len(rows))
        if out is not ent.rel:
            self.check_bounds(ent, len(rows), rel=out)
        if ok and sqlroot and self.profile.both_orders and w.fault.counts is not None:
            try:
                rows2, _ = self.evaluate(ent, reverse=not w.reverse, via="direct" if out is ent.rel else None)
            except Exception as e:  # noqa
                self.on_exec_exception(ent, e)
                return rows
            self.stats["both_orders"] += 1
            self.check_rows(ent, rows2)
        self.shapes.add(shape(ent.rel))
        return rows

    def on_exec_exception(self, ent, e):
        fired = self.w.fault.fired
        if fired and is_injected(e, fired):
            self.logev(self.w.op_index, "exec", "fault-surfaced", type(e).__name__)
            self.stats["fault_surfaced"] += 1
            return
        site = exc_site(e)
        phase = "execute"
        s = " ".join(site)
        if "<hook>" in s:
            phase = "hook:" + ("compile" if ("sql/_engine.py" in s.split("_processor.py")[-1]) else "execute")
        elif "_processor.py" in s:
            phase = "process"
        elif "sql/_engine.py" in s or "sql/_select.py" in s:
            phase = "compile"
        elif type(e).__module__.startswith("sqlalchemy"):
            phase = "database"
        elif "iteration/" in s:
            phase = "iterate"
        self.violate("no_recovery" if self.in_recovery else "exec_exception", {"phase": phase}, entry=ent, exc=e)
        self.logev(self.w.op_index, "exec", "exception", type(e).__name__, phase)

    # ------------------------------------------------------- new-entry checks
    def check_new(self, ent, op, parents):
        p = self.profile
        # columns always
        names = sorted(c.qualified_name for c in ent.rel.columns)
        if names != list(ent.mv.cols):
            self.violate("columns_mismatch", {"model": list(ent.mv.cols), "relation": names}, entry=ent)
            ent.taint.add("colmismatch")
        if ent.rel.engine.name != ent.mv.engine:
            # engine of result is part of C03(d)/C15; model engine is what was requested
            self.violate("engine_mismatch", {"model": ent.mv.engine, "relation": ent.rel.engine.name}, entry=ent)
        for hook in p.new_entry_hooks:
            hook(self, ent, op, parents)
        if p.eval_new and self.cfg.get("eval_new", True):
            self.eval_and_check(ent, op)

    # ----------------------------------------------------------------- leaves
    def op_leaf(self, op):
        lid = self.nleaf
        self.nleaf += 1
        cols = op["cols"]
        rows = op["rows"]
        special = op.get("special")
        if special in ("doomed", "nopayload"):
            rows = []
        elif special == "identity":
            cols, rows = [], [[]]
        name = None
        eng = op["eng"]
        if op.get("redeclare") is not None and self.w.leaves and not special:
            # a second leaf with the same engine, columns and name as an earlier one (the two compare equal and hash
            # equally - LeafRelation equality ignores payload and row bounds) but with its own rows and bounds
            olds = [i for i in sorted(self.w.leaves) if self.w.leaves[i]["engine"] == eng or True]
            o = self.w.leaves[olds[op["redeclare"] % len(olds)]]
            eng, cols, name = o["engine"], list(o["cols"]), o["rel_name"]
            rows = [[(r[j % len(r)] if r else 0) for j in range(len(cols))] for r in rows] if cols else [[] for _ in rows]
            self.probes["leaf_redeclared"] += 1
        self.w.fault.suspended = True       # creating the environment is not part of the system under test
        try:
            rel = self.w.make_leaf(lid, eng, cols, rows, op.get("bounds", "exact"), op.get("payload", "simrows"), special, name=name)
        finally:
            self.w.fault.suspended = False
        self.w.leaves[lid]["rel_name"] = name or f"L{lid}"
        op = {**op, "eng": eng}
        mv = M.m_leaf(lid, op["eng"], cols, rows)
        ent = Entry(rel, mv, op, [])
        ent.lid = lid
        self.pool.append(ent)
        self.logev(self.w.op_index, "leaf", str(rel), cols, rows)
        self.check_new(ent, op, [])

    # ------------------------------------------------------------------ unary
    def _sqlr(self, t, op):
        return op.get("pe"), op.get("bt", True)

    def _only2_ok(self, t, op):
        """`only2` is registered in engine it2 only: usable where the operation certainly runs in it2."""
        u = set()
        if "e" in op:
            u |= expr_udfs(op["e"])
        if op.get("p") is not None:
            u |= pred_udfs(op["p"])
        for tm in op.get("terms", []):
            u |= expr_udfs(tm[0])
        if ("pdiv" in u or "bitlen" in u) and (M.is_sql(t.mv.engine) or op.get("pe") is not None):
            return False
        return "only2" not in u or (t.mv.engine == "it2" and op.get("pe") in (None, "it2"))

    def shared_apply(self, op, t, make):
        """Apply through an operation *object* shared by every call with the same arguments in this run
        (UnaryOperation.apply is public API; users keep operation objects around)."""
        k = json.dumps({x: op[x] for x in op if x not in ("t", "pe", "bt", "tr", "rq", "faults", "shared")}, sort_keys=True)
        if k not in self.shared_ops:
            self.shared_ops[k] = make()
        return self.shared_ops[k].apply(t.rel, **self.flags(op))

    def op_calc(self, op):
        t = self.ref(op["t"])
        if t is None:
            return
        cols = set(t.mv.cols)
        need = expr_cols(op["e"])
        if not need or not need <= cols or op["tag"] in cols:
            return self.alias(op, t, "illtyped")
        if not self._only2_ok(t, op):
            return self.alias(op, t, "illtyped")
        tags = self.w.tags
        pe, bt = self._sqlr(t, op)
        from lsst.daf.relation import Calculation, Deduplication, Projection, Selection, Slice, Sort

        def call():
            if op.get("shared"):
                return self.shared_apply(op, t, lambda: Calculation(tags[op["tag"]], build_expr(op["e"], tags)))
            return t.rel.with_calculated_column(tags[op["tag"]], build_expr(op["e"], tags), **self.flags(op))

        self.factory(
            op, [t],
            call,
            lambda rel: self._umodel(t, op, rel, lambda v: M.m_calc(v, op["tag"], op["e"], pe, bt)),
        )

    def op_proj(self, op):
        t = self.ref(op["t"])
        if t is None:
            return
        cols = set(t.mv.cols)
        want = set(op["cols"])
        if not want <= cols:
            return self.alias(op, t, "illtyped")
        # documented precondition: non-key columns stay accompanied by the key they depend on
        tags = self.w.tags
        pe, bt = self._sqlr(t, op)
        self.factory(
            op, [t],
            (lambda: self.shared_apply(op, t, lambda: __import__("lsst.daf.relation", fromlist=["Projection"]).Projection(
                frozenset(tags[c] for c in sorted(want))))) if op.get("shared") else
            (lambda: t.rel.with_only_columns({tags[c] for c in sorted(want)}, **self.flags(op))),
            lambda rel: self._umodel(t, op, rel, lambda v: M.m_proj(v, want, pe, bt)),
        )

    def op_sel(self, op):
        t = self.ref(op["t"])
        if t is None:
            return
        if not pred_cols(op["p"]) <= set(t.mv.cols) or not self._only2_ok(t, op):
            return self.alias(op, t, "illtyped")
        tags = self.w.tags
        pe, bt = self._sqlr(t, op)
        self.factory(
            op, [t],
            (lambda: self.shared_apply(op, t, lambda: __import__("lsst.daf.relation", fromlist=["Selection"]).Selection(
                build_pred(op["p"], tags)))) if op.get("shared") else
            (lambda: t.rel.with_rows_satisfying(build_pred(op["p"], tags), **self.flags(op))),
            lambda rel: self._umodel(t, op, rel, lambda v: M.m_sel(v, op["p"], pe, bt)),
        )

    def op_dedup(self, op):
        t = self.ref(op["t"])
        if t is None:
            return
        if not M.dedup_ok(t.mv):
            return self.alias(op, t, "dedup-precondition")
        pe, bt = self._sqlr(t, op)
        self.factory(
            op, [t],
            (lambda: self.shared_apply(op, t, lambda: __import__("lsst.daf.relation", fromlist=["Deduplication"]).Deduplication()))
            if op.get("shared") else (lambda: t.rel.without_duplicates(**self.flags(op))),
            lambda rel: self._umodel(t, op, rel, lambda v: M.m_dedup(v, pe, bt)),
        )

    def op_sort(self, op):
        t = self.ref(op["t"])
        if t is None:
            return
        terms = op["terms"]
        cols = set(t.mv.cols)
        for e, _ in terms:
            if not expr_cols(e) <= cols:
                return self.alias(op, t, "illtyped")
        if not self._only2_ok(t, op):
            return self.alias(op, t, "illtyped")
        tags = self.w.tags
        pe, bt = self._sqlr(t, op)
        self.factory(
            op, [t],
            (lambda: self.shared_apply(op, t, lambda: __import__("lsst.daf.relation", fromlist=["Sort"]).Sort(
                tuple(SortTerm(build_expr(e, tags), bool(asc)) for e, asc in terms)))) if op.get("shared") else
            (lambda: t.rel.sorted([SortTerm(build_expr(e, tags), bool(asc)) for e, asc in terms], **self.flags(op))),
            lambda rel: self._umodel(t, op, rel, lambda v: M.m_sort(v, terms, pe, bt)),
        )

    def op_slice(self, op):
        t = self.ref(op["t"])
        if t is None:
            return
        start, stop = op["start"], op["stop"]
        if start < 0 or (stop is not None and stop < start):
            return self.alias(op, t, "illtyped")
        if op.get("pe") is not None or op.get("shared"):
            from lsst.daf.relation import Slice

            fl = self.flags(op)
            self.factory(op, [t], (lambda: self.shared_apply(op, t, lambda: Slice(start, stop))) if op.get("shared") else
                         (lambda: Slice(start, stop).apply(t.rel, **fl)),
                         lambda rel: self._umodel(t, op, rel, lambda v: M.m_slice(v, start, stop)))
        else:
            self.factory(op, [t], lambda: t.rel[start:stop], lambda rel: M.m_slice(t.mv, start, stop))

    # ----------------------------------------------------------------- binary
    def _order_loss_required(self, *ents):
        return any(M.is_sql(e.mv.engine) and e.mv.pending_sort for e in ents)

    def op_chain(self, op):
        l, r = self.ref(op["l"]), self.ref(op["r"])
        if l is None:
            return
        if l.mv.cols != r.mv.cols or l.mv.engine != r.mv.engine:
            return self.alias(op, l, "illtyped")
        if len(l.mv.up()) + len(r.mv.up()) > 120:
            return self.alias(op, l, "too-big")
        must = RelationalAlgebraError if self._order_loss_required(l, r) else None
        self.factory(op, [l, r], lambda: l.rel.chain(r.rel), lambda rel: M.m_chain(l.mv, r.mv), must_raise=must)

    def op_join(self, op):
        l, r = self.ref(op["l"]), self.ref(op["r"])
        if l is None:
            return
        shared = set(l.mv.cols) & set(r.mv.cols)
        if any(c in NONKEY for c in shared) and not (self.profile.structural_only and op.get("cmax") is not None):
            return self.alias(op, l, "illtyped")       # "unspecified" by the documentation
        if op.get("cmax") is not None and not self.profile.structural_only:
            return self.alias(op, l, "illtyped")
        p = op.get("p")
        if p is not None and not pred_cols(p) <= (set(l.mv.cols) | set(r.mv.cols)):
            return self.alias(op, l, "illtyped")
        if len(l.mv.up()) * len(r.mv.up()) > 300:
            return self.alias(op, l, "too-big")
        tags = self.w.tags
        kw = {}
        if "bt" in op:
            kw["backtrack"] = bool(op["bt"])
        if "tr" in op:
            kw["transfer"] = bool(op["tr"])
        must = None
        if l.mv.engine == r.mv.engine and self._order_loss_required(l, r):
            must = RelationalAlgebraError
        def call():
            pred = build_pred(p, tags) if p is not None else None
            if op.get("cmax") is not None:
                from lsst.daf.relation import Join, Predicate

                j = Join(pred if pred is not None else Predicate.literal(True), frozenset(),
                         frozenset(tags[c] for c in op["cmax"]))
                return j.partial(r.rel).apply(l.rel, **kw)
            if op.get("direct"):
                from lsst.daf.relation import Join, Predicate

                # the binary entry point, common columns left for the library to resolve
                return (Join(pred) if pred is not None else Join()).apply(l.rel, r.rel)
            if op.get("cc"):
                from lsst.daf.relation import Join, Predicate

                cc = frozenset(tags[c] for c in (op["cc"] if isinstance(op["cc"], list) else sorted(shared)))
                j = Join(pred if pred is not None else Predicate.literal(True), cc, cc)
                return j.partial(r.rel).apply(l.rel, **kw)
            return l.rel.join(r.rel, pred, **kw)

        self.factory(
            op, [l, r],
            call,
            lambda rel: self._jmodel(l, r, p, op, rel),
            must_raise=must,
        )

    # ---------------------------------------------------------------- markers
    def op_mat(self, op):
        t = self.ref(op["t"])
        if t is None:
            return
        must = RelationalAlgebraError if self._order_loss_required(t) else None
        name = op.get("name")
        ent = self.factory(
            op, [t],
            lambda: t.rel.materialized(name) if name is not None else t.rel.materialized(),
            lambda rel: M.m_mat(t.mv, name), must_raise=must,
        )
        if ent is not None and not ent.alias and ent.rel is t.rel:
            # "already materialized": only markers that stay in one engine may lie between the relation and the leaf /
            # materialization that holds the rows; past a Transfer nothing is cached and the upstream tree (transfer
            # included) would be evaluated again by every consumer
            n = t.rel
            while isinstance(n, MarkerRelation) and not isinstance(n, Materialization):
                if isinstance(n, Transfer):
                    self.violate("materialization_elided", {"relation": str(t.rel)[:200]}, entry=ent)
                    break
                n = n.target
        if ent is not None:
            for n in walk(ent.rel):
                if isinstance(n, Materialization):
                    self.mat_entries.setdefault(n.name, ent)
                    break

    def op_mark(self, op):
        """Wrap a relation in a user-defined MarkerRelation subclass (content and engine unchanged)."""
        from .world import SimMarker

        t = self.ref(op["t"])
        if t is None:
            return
        cls = SimMarker
        if op.get("pin"):
            from .world import SimPinned as cls
        self.factory(op, [t], lambda: cls(target=t.rel), lambda rel: t.mv.derive(hist=("mark", t.mv.hist)))

    def op_custom(self, op):
        """A user-defined unary operation (RowFilter / Reordering subclass) applied through UnaryOperation.apply."""
        from .world import SimAtLeast, SimOrderBy, SimStride

        t = self.ref(op["t"])
        if t is None:
            return
        kind = op["op"]
        if M.is_sql(t.mv.engine) or (op.get("pe") == "sql" and (op.get("tr") or op.get("rq"))):
            return self.alias(op, t, "illtyped")
        if kind == "orderby" and op["col"] not in t.mv.cols:
            return self.alias(op, t, "illtyped")
        tags = self.w.tags

        def make():
            if kind == "atleast":
                return SimAtLeast(op["n"])
            if kind == "stride":
                return SimStride(op["n"], bool(op.get("cd", True)))
            return SimOrderBy(tags[op["col"]], bool(op.get("desc")))

        self.factory(op, [t], lambda: make().apply(t.rel, **self.flags(op)),
                     lambda rel: self._umodel(t, op, rel, lambda v: M.m_custom(v, op)))

    def op_xfer(self, op):
        t = self.ref(op["t"])
        if t is None:
            return
        self.factory(op, [t], lambda: t.rel.transferred_to(self.w.engines[op["to"]]), lambda rel: M.m_xfer(t.mv, op["to"]))

    # -------------------------------------------------------------- execution
    def op_run(self, op):
        t = self.ref(op["t"])
        if t is None:
            return
        self.eval_and_check(t, op)

    # ---------------------------------------------------------------- cursors
    def op_cursor_open(self, op):
        t = self.ref(op["t"])
        if t is None or M.is_sql(t.mv.engine) or needs_processing(t.rel):
            return
        if len(self.cursors) >= 3:
            return
        try:
            rows = None
            if op.get("share"):
                # a second consumer of the very same executed result object
                prev = [c for c in self.cursors if c["ent"] is t]
                if prev:
                    rows = prev[-1]["rows"]
                    self.probes["shared_result_cursor"] += 1
            if rows is None:
                rows = t.rel.engine.execute(t.rel)
            it = iter(rows)
        except Exception as e:  # noqa
            self.on_exec_exception(t, e)
            return
        self.cursors.append({"ent": t, "it": it, "got": [], "done": False, "rows": rows})
        self.logev(self.w.op_index, "cursor_open", len(self.cursors) - 1)

    def op_pull(self, op):
        if not self.cursors:
            return
        c = self.cursors[op["c"] % len(self.cursors)]
        if c["done"]:
            return
        try:
            for _ in range(op["n"]):
                try:
                    r = next(c["it"])
                except StopIteration:
                    c["done"] = True
                    rows = [{t.qualified_name: v for t, v in x.items()} for x in c["got"]]
                    self.check_rows(c["ent"], rows)
                    self.stats["cursor_completed"] += 1
                    break
                c["got"].append(r)
        except Exception as e:  # noqa
            c["done"] = True
            injected = bool(self.w.fault.fired) and is_injected(e, self.w.fault.fired)
            self.on_exec_exception(c["ent"], e)
            if injected:
                # once the fault is gone, iterating the same result again yields the complete rows
                self.w.fault.disarm()
                self.stats["recoveries"] += 1
                self.in_recovery = True
                try:
                    rows = [{t.qualified_name: v for t, v in x.items()} for x in c["rows"]]
                    self.check_rows(c["ent"], rows)
                except Exception as e2:  # noqa
                    self.on_exec_exception(c["ent"], e2)
                finally:
                    self.in_recovery = False
        self.logev(self.w.op_index, "pull", len(c["got"]), c["done"])

    def op_abandon(self, op):
        if not self.cursors:
            return
        c = self.cursors[op["c"] % len(self.cursors)]
        if not c["done"]:
            c["done"] = True
            close = getattr(c["it"], "close", None)
            if close is not None:
                close()
            self.stats["cursor_abandoned"] += 1
            self.probes["consumer_abandon"] += 1
        self.logev(self.w.op_index, "abandon")

    # ------------------------------------------------------------- invariants
    def check_payload_content(self, ent, node):
        """Once attached, the rows held by an iteration-engine payload never change."""
        p = node.payload
        rows = getattr(p, "rows", None)
        if isinstance(p, sql.Payload):
            # a cached SQL payload is a struct the engine must copy before extending (WHERE terms, extra columns)
            try:
                h = hashlib.sha1(repr((len(p.where), [str(x) for x in p.where],
                                       sorted(t.qualified_name for t in p.columns_available),
                                       getattr(p.from_clause, "name", None))).encode()).hexdigest()[:12]
            except Exception:
                return
        elif rows is None or isinstance(p, SimRows):
            return
        else:
            try:
                seq = list(rows.values()) if isinstance(rows, dict) else list(rows)
                h = hashlib.sha1(repr([sorted((t.qualified_name, v) for t, v in r.items()) for r in seq]).encode()).hexdigest()[:12]
            except Exception:
                return
        k = (id(node), id(p))
        old = self.payload_content.get(k)
        if old is None:
            self.payload_content[k] = h
            self._keep_nodes.append((node, p))
        elif old != h:
            self.payload_content[k] = h
            self.violate("mutated", {"what": "rows of a cached payload changed", "node": str(node)[:200]}, entry=ent)

    def check_payload_ledger(self):
        for ent in self.pool:
            for node in walk(ent.rel):
                if isinstance(node, MarkerRelation):
                    self.check_payload_content(ent, node)
                    self.stats["payload_nodes_checked"] += 1
                    tok = self.w.token(node.payload)
                    k = id(node)
                    old = self.payload_ledger.get(k)
                    if old is None:
                        self.payload_ledger[k] = (node, tok)
                    elif old[1] != tok:
                        if old[1] is None:
                            self.payload_ledger[k] = (node, tok)
                        else:
                            self.violate("payload_overwritten", {"node": str(node)[:200], "old": old[1], "new": tok}, entry=ent)
                            self.payload_ledger[k] = (node, tok)

    def check_fingerprints(self):
        from .fingerprint import fingerprint

        for idx, ent in enumerate(self.pool):
            if ent.alias:
                continue
            for node in walk(ent.rel):
                if isinstance(node, MarkerRelation) and node.payload is not None:
                    self.check_payload_content(ent, node)
            self.stats["fingerprints_checked"] += 1
            try:
                fp = fingerprint(self.w, ent.rel)
            except Exception as e:  # noqa
                self.violate("unhashable", {"what": "fingerprint failed"}, entry=ent, exc=e)
                continue
            old = self.fingerprints.get(idx)
            if old is None:
                self.fingerprints[idx] = fp
            elif old != fp:
                diff = [k for k in fp if fp[k] != old.get(k)]
                self.violate("mutated", {"entry": idx, "changed": diff}, entry=ent)
                self.fingerprints[idx] = fp
        for lid in self.w.leaves:
            h = self.w.leaf_content_hash(lid)
            k = ("leaf", lid)
            old = self.fingerprints.get(k)
            if old is None:
                self.fingerprints[k] = h
            elif old != h:
                self.violate("mutated", {"leaf": lid, "what": "leaf payload content changed"})
                self.fingerprints[k] = h
