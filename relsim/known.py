"""Known-finding recognisers.  Each recogniser pins one *specific* defect
(call site + input class); anything else of the same property is still reported.

/verif/known_findings.json lists the findings (status known|fixed) with a
witness scenario; a `known` finding is armed for a check only if its witness
still fails (see runner.arm_findings).  `fixed` findings are never armed.
"""
from __future__ import annotations

import json
import os

from . import VERIF

FINDINGS_FILE = os.path.join(VERIF, "known_findings.json")


def load_findings():
    if not os.path.exists(FINDINGS_FILE):
        return []
    with open(FINDINGS_FILE) as f:
        return json.load(f)["findings"]


RECOGNISERS = {}


def recogniser(fid):
    def deco(f):
        RECOGNISERS[fid] = f
        return f

    return deco


def recognise(run, v, entry, exc):
    """Return the id of the known finding that explains violation v, or None."""
    for fid, f in RECOGNISERS.items():
        try:
            if f(run, v, entry, exc):
                return fid
        except Exception:  # a recogniser must never break a run
            continue
    return None


# ----------------------------------------------------------------------------
# helpers
def _site(v, *needles):
    s = " ".join(v.get("exc_site", []))
    return all(n in s for n in needles)


def _parents_identity(entry):
    return any(p.rel.is_join_identity for p in entry.parents)


@recogniser("F21")
def f21(run, v, entry, exc):
    """join with a non-trivial predicate to a join-identity operand: operand elided, predicate dropped."""
    if v["kind"] not in ("rows_mismatch",) or entry is None:
        return False
    op = entry.op
    return op.get("k") == "join" and op.get("p") is not None and _parents_identity(entry)


def _walk(rel):
    from .world import walk

    return walk(rel)


def _hidden_join_collision(rel):
    from lsst.daf.relation import BinaryOperationRelation, Join

    for n in _walk(rel):
        if isinstance(n, BinaryOperationRelation) and isinstance(n.operation, Join):
            shared = set(n.lhs.columns) & set(n.rhs.columns)
            if not shared <= set(n.operation.common_columns):
                return True
    return False


@recogniser("F9")
def f9(run, v, entry, exc):
    """SQL join whose operand lost a projection to Select.strip(): a projected-away column of one operand
    shadows (or is confused with) the same-named column of the other."""
    if v["kind"] not in ("rows_mismatch", "exec_exception") or entry is None:
        return False
    return _hidden_join_collision(entry.rel)


def _chain_order_mismatch(rel):
    from lsst.daf.relation import BinaryOperationRelation, Chain

    for n in _walk(rel):
        if isinstance(n, BinaryOperationRelation) and isinstance(n.operation, Chain):
            if [t.qualified_name for t in n.lhs.columns] != [t.qualified_name for t in n.rhs.columns]:
                return True
    return False


@recogniser("F10")
def f10(run, v, entry, exc):
    """UNION operands whose (equal) column sets iterate in different orders: SELECT lists are emitted in set
    iteration order, so values land in the wrong columns."""
    if v["kind"] not in ("rows_mismatch",) or entry is None:
        return False
    return _chain_order_mismatch(entry.rel)


@recogniser("F4")
def f4(run, v, entry, exc):
    """Projection.commute moves a projection upstream of a Deduplication (pinned by
    tests/test_projection.py::test_backtracking_apply)."""
    if v["kind"] == "commute_unsound":
        d = v["detail"]
        return d.get("existing") == "deduplicate" and str(d.get("new", "")).startswith("Π[") and d.get("why") == "rows differ"
    if v["kind"] in ("rows_mismatch", "tree_semantics", "bad_payload") and entry is not None:
        return "commute:Projection>Deduplication:full" in entry.events
    return False


CONTENT_KINDS = ("rows_mismatch", "tree_semantics", "merge_semantics", "bad_payload", "exec_exception",
                 "unexpected_exception", "keys_mismatch", "select_incoherent", "conform_exception")


def _sort_over_chain_missing_cols(rel):
    """A Select over a chain whose sort needs columns the chain operands no longer have."""
    from lsst.daf.relation import BinaryOperationRelation, Chain, Sort, UnaryOperationRelation

    for n in _walk(rel):
        if isinstance(n, UnaryOperationRelation) and isinstance(n.operation, Sort):
            t = n.target
            if isinstance(t, BinaryOperationRelation) and isinstance(t.operation, Chain):
                if not set(n.operation.columns_required) <= set(t.columns):
                    return True
    return False


@recogniser("F8")
def f8(run, v, entry, exc):
    """chain(...).sorted([b]).with_only_columns({a}): the SQL engine pushes the projection inside the chain,
    beneath the sort that still needs b."""
    if v["kind"] not in CONTENT_KINDS or entry is None:
        return False
    return _sort_over_chain_missing_cols(entry.rel)
