"""Known-finding recognisers.  Each recogniser pins one *specific* defect
(call site + input class); anything else of the same property is still reported.

/verif/known_findings.json lists the findings (status known|fixed) with a
witness scenario; a `known` finding is armed for a check only if its witness
still fails (see runner.arm_findings).  `fixed` findings are never armed.
"""
from __future__ import annotations

import json
import os

from . import VERIF

FINDINGS_FILE = os.path.join(VERIF, "known_findings.json")


def load_findings():
    if not os.path.exists(FINDINGS_FILE):
        return []
    with open(FINDINGS_FILE) as f:
        return json.load(f)["findings"]


RECOGNISERS = {}


def recogniser(fid):
    def deco(f):
        RECOGNISERS[fid] = f
        return f

    return deco


def recognise(run, v, entry, exc):
    """Return the id of the known finding that explains violation v, or None."""
    for fid, f in RECOGNISERS.items():
        try:
            if f(run, v, entry, exc):
                return fid
        except Exception:  # a recogniser must never break a run
            continue
    return None


# ----------------------------------------------------------------------------
# helpers
def _site(v, *needles):
    s = " ".join(v.get("exc_site", []))
    return all(n in s for n in needles)
