"""Known-finding recognisers.  Each recogniser pins one *specific* defect
(call site + input class); anything else of the same property is still reported.

/verif/known_findings.json lists the findings (status known|fixed) with a
witness scenario; a `known` finding is armed for a check only if its witness
still fails (see runner.arm_findings).  `fixed` findings are never armed.
"""
from __future__ import annotations

import json
import os

from . import VERIF

FINDINGS_FILE = os.path.join(VERIF, "known_findings.json")


def load_findings():
    if not os.path.exists(FINDINGS_FILE):
        return []
    with open(FINDINGS_FILE) as f:
        return json.load(f)["findings"]


RECOGNISERS = {}


def recogniser(fid):
    def deco(f):
        RECOGNISERS[fid] = f
        return f

    return deco


_ACTIVE = None


def active_ids():
    """Only findings whose status is `known` have a live recogniser; recognisers of repaired (`fixed`) findings are
    kept in this file for the record but never consulted, so they can neither suppress nor pre-empt anything."""
    global _ACTIVE
    if _ACTIVE is None:
        _ACTIVE = {f["id"] for f in load_findings() if f["status"] == "known"}
    return _ACTIVE


def recognise(run, v, entry, exc):
    """Return the id of the known finding that explains violation v, or None."""
    act = active_ids()
    for fid, f in RECOGNISERS.items():
        if fid not in act:
            continue
        try:
            if f(run, v, entry, exc):
                return fid
        except Exception:  # a recogniser must never break a run
            continue
    return None


# ----------------------------------------------------------------------------
# helpers
def _site(v, *needles):
    s = " ".join(v.get("exc_site", []))
    return all(n in s for n in needles)


def _parents_identity(entry):
    return any(p.rel.is_join_identity for p in entry.parents)


@recogniser("F21")
def f21(run, v, entry, exc):
    """join with a non-trivial predicate to a join-identity operand: operand elided, predicate dropped."""
    if v["kind"] not in ("rows_mismatch",) or entry is None:
        return False
    op = entry.op
    return op.get("k") == "join" and op.get("p") is not None and _parents_identity(entry)


def _walk(rel):
    from .world import walk

    return walk(rel)


def _hidden_join_collision(rel):
    from lsst.daf.relation import BinaryOperationRelation, Join

    for n in _walk(rel):
        if isinstance(n, BinaryOperationRelation) and isinstance(n.operation, Join):
            shared = set(n.lhs.columns) & set(n.rhs.columns)
            if not shared <= set(n.operation.common_columns):
                return True
    return False


@recogniser("F9")
def f9(run, v, entry, exc):
    """SQL join whose operand lost a projection to Select.strip(): a projected-away column of one operand
    shadows (or is confused with) the same-named column of the other."""
    if v["kind"] not in ("rows_mismatch", "exec_exception") or entry is None:
        return False
    return _hidden_join_collision(entry.rel)


def _chain_order_mismatch(rel):
    from lsst.daf.relation import BinaryOperationRelation, Chain

    for n in _walk(rel):
        if isinstance(n, BinaryOperationRelation) and isinstance(n.operation, Chain):
            if [t.qualified_name for t in n.lhs.columns] != [t.qualified_name for t in n.rhs.columns]:
                return True
    return False


@recogniser("F10")
def f10(run, v, entry, exc):
    """UNION operands whose (equal) column sets iterate in different orders: SELECT lists are emitted in set
    iteration order, so values land in the wrong columns."""
    if v["kind"] not in ("rows_mismatch",) or entry is None:
        return False
    return _chain_order_mismatch(entry.rel)


@recogniser("F4")
def f4(run, v, entry, exc):
    """Projection.commute moves a projection upstream of a Deduplication (pinned by
    tests/test_projection.py::test_backtracking_apply)."""
    if v["kind"] == "commute_unsound":
        d = v["detail"]
        return d.get("existing") == "deduplicate" and str(d.get("new", "")).startswith("Π[") and d.get("why") == "rows differ"
    if v["kind"] in ("rows_mismatch", "tree_semantics", "bad_payload", "count_out_of_bounds", "flags_wrong") and entry is not None:
        # (the row bounds / join-identity flag of the mis-ordered tree are those of "project, then deduplicate")
        return "commute:Projection>Deduplication:full" in entry.events
    return False


CONTENT_KINDS = ("rows_mismatch", "tree_semantics", "merge_semantics", "bad_payload", "exec_exception",
                 "unexpected_exception", "keys_mismatch", "select_incoherent", "conform_exception")


def _sort_over_chain_missing_cols(rel):
    """A Select over a chain whose sort needs columns the chain operands no longer have."""
    from lsst.daf.relation import BinaryOperationRelation, Chain, Sort, UnaryOperationRelation

    for n in _walk(rel):
        if isinstance(n, UnaryOperationRelation) and isinstance(n.operation, Sort):
            t = n.target
            if isinstance(t, BinaryOperationRelation) and isinstance(t.operation, Chain):
                if not set(n.operation.columns_required) <= set(t.columns):
                    return True
    return False


@recogniser("F8")
def f8(run, v, entry, exc):
    """chain(...).sorted([b]).with_only_columns({a}): the SQL engine pushes the projection inside the chain,
    beneath the sort that still needs b."""
    if v["kind"] not in CONTENT_KINDS or entry is None:
        return False
    return _sort_over_chain_missing_cols(entry.rel)


def _has_iteration_join(rel):
    from lsst.daf.relation import BinaryOperationRelation, Join, iteration

    return any(isinstance(n, BinaryOperationRelation) and isinstance(n.operation, Join)
               and isinstance(n.engine, iteration.Engine) for n in _walk(rel))


@recogniser("F19")
def f19(run, v, entry, exc):
    """join accepted in the iteration engine, rejected at execute() (documented limitation)."""
    if entry is None or v.get("exc_type") != "EngineError":
        return False
    return "Joins are not supported by the iteration engine" in v.get("exc_msg", "") and _has_iteration_join(entry.rel)


def _nested_compound(rel):
    from lsst.daf.relation import BinaryOperationRelation, Chain, MarkerRelation
    from lsst.daf.relation.sql import Select

    for n in _walk(rel):
        if isinstance(n, BinaryOperationRelation) and isinstance(n.operation, Chain):
            for o in (n.lhs, n.rhs):
                # look through operation-free wrappers (a Select around a user marker around a compound Select
                # compiles to the same parenthesised compound)
                while True:
                    if isinstance(o, Select):
                        if o.is_compound:
                            return True
                        if o.has_sort or o.has_slice or o.has_projection or o.has_deduplication or o.target is not o.skip_to:
                            break
                        o = o.target
                    elif isinstance(o, MarkerRelation) and o.payload is None:
                        o = o.target
                    else:
                        break
    return False


@recogniser("F16")
def f16(run, v, entry, exc):
    """chain whose operand is itself a chain: parenthesised compound SELECT, rejected by SQLite."""
    if entry is None or v.get("exc_type") != "OperationalError":
        return False
    # (SQLite names the token after which it gave up: "(" when the parenthesised compound is the right operand,
    #  "UNION" when it is the left one)
    msg = v.get("exc_msg", "")
    return ('near "(": syntax error' in msg or 'near "UNION": syntax error' in msg) and _nested_compound(entry.rel)


def _leaf_names(rel):
    from lsst.daf.relation import LeafRelation

    return {n.name for n in _walk(rel) if isinstance(n, LeafRelation)}


def _self_join(rel):
    from lsst.daf.relation import BinaryOperationRelation, Join, MarkerRelation

    def tables(r):
        # table names visible without an intervening subquery or cached payload
        out = set()
        for n in _walk(r):
            p = getattr(n, "payload", None)
            fc = getattr(p, "from_clause", None)
            if fc is not None and getattr(fc, "name", None):
                out.add(fc.name)
        return out

    for n in _walk(rel):
        if isinstance(n, BinaryOperationRelation) and isinstance(n.operation, Join):
            if tables(n.lhs) & tables(n.rhs):
                return True
    return False


@recogniser("F15")
def f15(run, v, entry, exc):
    """join whose operands read the same table: un-aliased FROM t JOIN t, 'ambiguous column name'."""
    if entry is None or v.get("exc_type") != "OperationalError":
        return False
    return "ambiguous column name" in v.get("exc_msg", "") and _self_join(entry.rel)


def _compound_sort_by_expression(rel):
    from lsst.daf.relation import ColumnReference
    from lsst.daf.relation.sql import Select

    for n in _walk(rel):
        if isinstance(n, Select) and n.is_compound and n.has_sort:
            if any(not isinstance(t.expression, ColumnReference) for t in n.sort.terms):
                return True
    return False


@recogniser("F25")
def f25(run, v, entry, exc):
    """UNION ... ORDER BY <expression>: sort terms of a compound SELECT that are not plain result columns."""
    if entry is None or v.get("exc_type") != "OperationalError":
        return False
    return "ORDER BY term does not match any column in the result set" in v.get("exc_msg", "") and \
        _compound_sort_by_expression(entry.rel)


@recogniser("F13")
def f13(run, v, entry, exc):
    """Select.skip_to is a Calculation that the Select's own projection elided from the target chain."""
    if v["kind"] != "select_incoherent" or entry is None:
        return False
    from lsst.daf.relation import Calculation, UnaryOperationRelation
    from lsst.daf.relation.sql import Select
    from .oracles import all_nodes

    if "does not reach skip_to" not in v["detail"].get("problem", ""):
        return False
    for n in all_nodes(entry.rel):
        if isinstance(n, Select) and n.has_projection:
            st = n.skip_to
            if isinstance(st, UnaryOperationRelation) and isinstance(st.operation, Calculation) \
                    and st.operation.tag not in n.projection.columns and str(n)[:200] == v["detail"].get("select"):
                return True
    return False


def _sort_missing_cols_not_chain(rel):
    from lsst.daf.relation import BinaryOperationRelation, Chain, Sort, UnaryOperationRelation
    from .oracles import all_nodes

    for n in all_nodes(rel):
        if isinstance(n, UnaryOperationRelation) and isinstance(n.operation, Sort):
            t = n.target
            if isinstance(t, BinaryOperationRelation) and isinstance(t.operation, Chain):
                continue
            if not set(n.operation.columns_required) <= set(t.columns):
                return True
    return False


def _proj_after_dedup_after_sortdrop(entry):
    """History pattern of F7: sort, then a projection dropping a sort column, a deduplication, another projection."""
    h = entry.mv.hist

    def chainops(h):
        out = []
        while isinstance(h, tuple) and h and h[0] in ("proj", "dedup", "sort", "slice", "calc", "sel"):
            out.append(h[0])
            h = h[1]
        return out

    ops = chainops(h)
    return "dedup" in ops and "sort" in ops and ops.count("proj") >= 1


@recogniser("F7")
def f7(run, v, entry, exc):
    """sort -> projection dropping the sort column -> deduplication -> projection: the outer Select keeps a sort
    on a column its subquery no longer provides (KeyError at compile)."""
    if entry is None or v["kind"] not in CONTENT_KINDS:
        return False
    return _sort_missing_cols_not_chain(entry.rel)


def _buried_sorted_compound_with_empty_branch(rel):
    """A Select over a chain with a sort and no slice that sits *under* another node (buried by a
    calculation/selection over the compound), where one chain branch is statically empty."""
    from lsst.daf.relation import BinaryOperationRelation, Chain
    from lsst.daf.relation.sql import Select
    from .oracles import all_nodes

    for n in all_nodes(rel):
        if n is rel:
            continue
        if isinstance(n, Select) and n.is_compound and n.has_sort and not n.has_slice:
            ch = n.skip_to
            if isinstance(ch, BinaryOperationRelation) and isinstance(ch.operation, Chain) and \
                    (ch.lhs.max_rows == 0 or ch.rhs.max_rows == 0):
                return True
    return False


@recogniser("F28")
def f28(run, v, entry, exc):
    """process() re-applies operations after pruning a statically empty chain branch; a sort that the SQL engine had
    silently buried under a calculation/selection over the UNION then resurfaces next to a join/chain/materialization
    and the order-loss error is raised at process() time instead of at construction."""
    if entry is None or v.get("exc_type") != "RelationalAlgebraError":
        return False
    if "will not preserve row order" not in v.get("exc_msg", "") or "_processor.py" not in " ".join(v.get("exc_site", [])):
        return False
    return _buried_sorted_compound_with_empty_branch(entry.rel)
