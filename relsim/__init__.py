"""relsim: deterministic simulation with fault injection for lsst.daf.relation.

Importing this package puts /repo/python (the *current working tree*) first on
sys.path so that the checks always exercise the code as it is now.
"""
import os
import sys

REPO = os.environ.get("RELSIM_REPO", "/repo")
_p = os.path.join(REPO, "python")
if _p not in sys.path:
    sys.path.insert(0, _p)
VERIF = os.path.dirname(os.path.dirname(os.path.abspath(__file__)))
