"""HashSeam: column tags whose hash (hence the iteration order of every set and
dict of tags inside the library) is owned by the simulator.

Harness code must never iterate a set of tags without sorting by name.
"""
from __future__ import annotations

KEY_TAGS = ["a", "b", "c", "d", "e"]
NONKEY_TAGS = ["u", "v"]
CALC_TAGS = ["x", "y", "z", "w"]          # x, y key; z, w non-key
ALL_NAMES = KEY_TAGS + NONKEY_TAGS + CALC_TAGS
NONKEY = set(NONKEY_TAGS) | {"z", "w"}

HASH_MODES = ["ascii", "salted", "collide8", "collide32", "reverse"]


class SimTag:
    """ColumnTag implementation with a harness-controlled hash."""

    __slots__ = ("qualified_name", "is_key", "_h")

    def __init__(self, name: str, is_key: bool, h: int):
        self.qualified_name = name
        self.is_key = is_key
        self._h = h

    def __hash__(self) -> int:
        return self._h

    def __eq__(self, other) -> bool:
        return isinstance(other, SimTag) and other.qualified_name == self.qualified_name

    def __ne__(self, other) -> bool:
        return not self.__eq__(other)

    def __repr__(self) -> str:
        return self.qualified_name

    __str__ = __repr__

    # deliberately NOT orderable: the ColumnTag protocol only promises hashability


def make_tags(mode: str, rng) -> dict[str, SimTag]:
    """Build the tag universe for one run under the given hash mode."""
    names = list(ALL_NAMES)
    table: dict[str, int] = {}
    if mode == "ascii":
        for n in names:
            table[n] = int.from_bytes(n.encode(), "little")
    elif mode == "salted":
        for n in names:
            table[n] = rng.getrandbits(60) + 1
    elif mode in ("collide8", "collide32"):
        m = 8 if mode == "collide8" else 32
        c = rng.randrange(m)
        ks = list(range(1, len(names) + 1))
        rng.shuffle(ks)
        for n, k in zip(names, ks):
            table[n] = c + m * k * 4  # equal mod 8/32 (and mod 4*m: collide after one resize too)
    elif mode == "reverse":
        for n in names:
            table[n] = 1000 - int.from_bytes(n.encode(), "little")
    else:
        raise ValueError(mode)
    return {n: SimTag(n, n not in NONKEY, table[n]) for n in names}
