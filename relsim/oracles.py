"""New-entry oracles (hooks run on every relation returned by a factory call,
and, where marked, on every tree returned by process())."""
from __future__ import annotations

import random

from lsst.daf.relation import (
    BinaryOperationRelation,
    Calculation,
    Chain,
    Deduplication,
    Join,
    LeafRelation,
    MarkerRelation,
    Materialization,
    Projection,
    Selection,
    Slice,
    Sort,
    Transfer,
    UnaryOperationRelation,
    sql,
)
from lsst.daf.relation._operations._join import PartialJoin
from lsst.daf.relation._unary_operation import Identity

from . import model as M
from .interp import InterpError, apply_unary, interp, join_rows
from .monitors import MON
from .world import children, walk


def on_process(f):
    f.on_process = True
    return f


def all_nodes(rel):
    """walk() plus Select.skip_to links."""
    seen = set()
    stack = [rel]
    while stack:
        n = stack.pop()
        if id(n) in seen:
            continue
        seen.add(id(n))
        yield n
        stack.extend(children(n))
        st = getattr(n, "skip_to", None)
        if st is not None:
            stack.append(st)


def _uses_function(x, name):
    """Does a library expression / predicate / container mention the named engine function? (independent of
    the library's own is_supported_by)."""
    if hasattr(x, "args") and getattr(x, "supporting_engine_types", None) is not None:
        return True      # any engine-restricted function or predicate function (the harness restricts to iteration
                         # engines only; unrestricted twins of the same name are fine everywhere)
    for attr in ("args", "operands", "items"):
        for y in getattr(x, attr, ()) or ():
            if _uses_function(y, name):
                return True
    for attr in ("operand", "item", "container", "expression"):
        y = getattr(x, attr, None)
        if y is not None and _uses_function(y, name):
            return True
    return False


def _operation_expressions(o):
    out = []
    for attr in ("expression", "predicate"):
        if hasattr(o, attr):
            out.append(getattr(o, attr))
    for t in getattr(o, "terms", ()) or ():
        out.append(t.expression)
    return out


# ------------------------------------------------------------------------ C14
@on_process
def wellformed(run, ent, op, parents):
    run.stats["trees_walked"] += 1
    for n in all_nodes(ent.rel):
        problem = None
        if isinstance(n, (UnaryOperationRelation, BinaryOperationRelation)) and isinstance(n.engine, sql.Engine):
            if any(_uses_function(e, "itonly") for e in _operation_expressions(n.operation)):
                run.violate("malformed_tree", {"node": str(n)[:200],
                                               "problem": "iteration-only column function inside a SQL-engine node"}, entry=ent)
                return
        if isinstance(n, UnaryOperationRelation):
            o = n.operation
            if isinstance(o, (Identity, PartialJoin)):
                problem = f"placeholder operation {type(o).__name__} appears as a node"
            elif n.engine is not n.target.engine:
                problem = "unary node engine differs from its operand's"
            elif not o.is_supported_by(n.engine):
                problem = f"operation {o} not supported by its engine {n.engine}"
        elif isinstance(n, BinaryOperationRelation):
            o = n.operation
            if n.lhs.engine is not n.rhs.engine:
                problem = f"binary operands in different engines {n.lhs.engine} / {n.rhs.engine}"
            elif isinstance(o, Join):
                if o.min_columns != o.max_columns:
                    problem = "join with unresolved common columns"
                else:
                    cc = set(o.min_columns)
                    if not cc <= (set(n.lhs.columns) & set(n.rhs.columns)):
                        problem = "join common columns not in both operands"
                    elif any(not t.is_key for t in cc):
                        problem = "join common column that is not a key column"
                    elif not o.predicate.is_supported_by(n.engine):
                        problem = "join predicate not supported by engine"
            elif not isinstance(o, Chain):
                problem = f"placeholder binary operation {type(o).__name__} appears as a node"
            elif set(n.lhs.columns) != set(n.rhs.columns):
                problem = "chain operands with different columns"
        elif isinstance(n, Transfer):
            if n.destination is n.target.engine:
                problem = "transfer connects an engine to itself"
        elif isinstance(n, MarkerRelation):
            if n.engine is not n.target.engine:
                problem = "non-transfer marker changes engine"
        if problem is not None:
            run.violate("malformed_tree", {"node": str(n)[:200], "problem": problem}, entry=ent)
            return
    # documented no-ops return the relation itself
    if op["k"] in ("proj", "sort", "xfer") and parents and not ent.alias:
        t = parents[0]
        noop = (op["k"] == "proj" and set(op["cols"]) == set(t.mv.cols)) or \
               (op["k"] == "sort" and not op["terms"]) or \
               (op["k"] == "xfer" and op["to"] == t.mv.engine)
        if noop and isinstance(t.rel.engine, sql.Engine) and type(t.rel).__name__ in ("SimMarker", "SimPinned"):
            noop = False      # a user marker built directly around a SQL relation (not the product of a factory call)
                              # is un-conformed, and is legitimately conformed first
        if noop:
            run.probes["noop_calls"] += 1
            if ent.rel is not t.rel:
                run.violate("noop_not_identity", {"op": op, "returned": str(ent.rel)[:200]}, entry=ent)
    engs = {n.engine.name for n in all_nodes(ent.rel)}
    if len(engs) >= 2:
        from .world import shape

        run.dn.add(("wf", shape(ent.rel)))


# ------------------------------------------------------------------------ C15
def locked_nodes(rel):
    """(kind, name) -> list of distinct node objects.  Several distinct nodes may legitimately share a name
    (process() returns new Materialization nodes named like the originals)."""
    out = {}
    for n in all_nodes(rel):
        if isinstance(n, LeafRelation):
            out.setdefault(("leaf", n.name), []).append(n)
        elif isinstance(n, Materialization):
            out.setdefault(("mat", n.name), []).append(n)
    return out


def locked_identity(run, ent, op, parents):
    if not parents or op["k"] == "twin":
        return          # (a twin is a deliberate from-scratch copy: new nodes by construction)
    res = locked_nodes(ent.rel)
    nonleaf = False
    inputs = {}
    for p in parents:
        for key, nodes in locked_nodes(p.rel).items():
            if key[0] == "mat":
                nonleaf = True
            inputs.setdefault(key, []).extend(nodes)
    for key, nodes in res.items():
        if key not in inputs:
            continue
        for node in nodes:
            run.stats["locked_nodes_checked"] += 1
            if not any(node is x for x in inputs[key]):
                # a locked node of the result that looks like an input's node but is a different object: rewritten
                orig = inputs[key][0]
                run.violate("locked_rewritten", {"node": str(orig)[:200], "op": op,
                                                 "same_target": node.target is orig.target if key[0] == "mat" else None},
                            entry=ent)
                return
    if op["k"] in ("xfer", "calc", "proj", "sel", "dedup", "sort", "slice", "mat") and not ent.alias:
        # a unary tree-building call keeps every materialization of its input (it may only add nodes around them)
        for key, nodes in locked_nodes(parents[0].rel).items():
            if key[0] == "mat":
                for node in nodes:
                    if not any(node is x for x in res.get(key, [])):
                        run.violate("locked_dropped", {"node": str(node)[:200], "op": op, "returned": str(ent.rel)[:200]},
                                    entry=ent)
                        return
    if op["k"] == "mat":
        # materializing a leaf or a materialization adds no new materialization
        t = parents[0]
        root = t.rel
        while isinstance(root, sql.Select) and not (root.has_sort or root.has_projection or root.has_deduplication or root.has_slice):
            root = root.target
        if isinstance(root, (LeafRelation, Materialization)):
            run.probes["mat_of_locked"] += 1
            before = sum(1 for k in locked_nodes(t.rel) if k[0] == "mat")
            after = sum(1 for k in res if k[0] == "mat")
            if after != before:
                run.violate("redundant_materialization", {"op": op, "returned": str(ent.rel)[:200]}, entry=ent)
    if nonleaf:
        from .world import shape

        run.dn.add(("locked", shape(ent.rel), op["k"], op.get("pe"), op.get("bt"), op.get("tr")))


# ------------------------------------------------------------------------ C17
def conformed(run, ent, op, parents):
    if not isinstance(ent.rel.engine, sql.Engine) or op["k"] == "mark":
        return          # (a user-defined marker around a SQL relation was not produced by the engine's factories)
    w = run.w
    try:
        c = w.sql.conform(ent.rel)
    except Exception as e:  # noqa
        run.violate("conform_exception", {"tree": str(ent.rel)[:200]}, entry=ent, exc=e)
        return
    run.stats["conform_checked"] += 1
    if c is not ent.rel and op["k"] != "process":
        run.violate("factory_not_conformed", {"tree": str(ent.rel)[:200]}, entry=ent)
    if w.sql.conform(c) is not c:
        run.violate("conform_not_idempotent", {"tree": str(ent.rel)[:200]}, entry=ent)
    run.check_select_coherence(ent)
    if op["k"] not in ("process", "rawtree", "leaf") and M.is_sql(ent.mv.engine) and not ent.alias:
        run.op_rawtree({"k": "rawtree", "t": len(run.pool) - 1})      # conform(raw history) must preserve rows
    nest = str(ent.rel).count("select(")
    from .world import shape

    run.dn.add(("selects", shape(ent.rel)))


conformed.on_process = True


# ------------------------------------------------------------------------ C11
def no_buried_sort(run, ent, op, parents):
    if not isinstance(ent.rel.engine, sql.Engine):
        return
    for n in all_nodes(ent.rel):
        cands = []
        if isinstance(n, BinaryOperationRelation):
            cands = [n.lhs, n.rhs]
        elif isinstance(n, Materialization):
            cands = [n.target]
        for c in cands:
            if isinstance(c, sql.Select) and c.has_sort and not c.has_slice:
                run.violate("buried_sort", {"node": str(n)[:200], "operand": str(c)[:150]}, entry=ent)
                return


# ------------------------------------------------------------------- C04 / C05
def _cols(rel):
    return set(rel.columns)


def commute_sound(run, ent, op, parents):
    """Judge every commute() the library performed while building this entry."""
    w = run.w
    for new_op, current, com in MON.commutes:
        run.stats["commutes_checked"] += 1
        cur_op = current.operation
        outcome = "refused" if com.first is None else ("full" if com.done else "partial")
        pshape = (type(cur_op).__name__, type(new_op).__name__, outcome,
                  len(getattr(new_op, "columns_required", ())), len(current.target.columns))
        run.dn.add(("commute",) + pshape)
        run.commute_matrix[(type(cur_op).__name__, type(new_op).__name__, outcome)] += 1
        if com.first is None:
            if com.second is not cur_op and not com.done:
                run.violate("commute_unsound", {"why": "refusal does not hand back the existing operation",
                                                "existing": str(cur_op), "new": str(new_op)}, entry=ent)
            elif com.done:
                # "nothing to insert and nothing left to do": claims that the new operation does nothing after the
                # existing one - judged like any other report, with an empty first operation
                try:
                    base = interp(w, current.target)
                    fx = interp(w, new_op.fixed) if isinstance(new_op, PartialJoin) else None

                    def app0(o, rows):
                        if isinstance(o, PartialJoin):
                            f = fx if o is new_op else interp(w, o.fixed)
                            return join_rows(o.binary, f, rows) if o.fixed_is_lhs else join_rows(o.binary, rows, f)
                        return apply_unary(o, rows)

                    lhs = app0(new_op, app0(cur_op, base))
                    r = app0(com.second, base)
                except (InterpError, KeyError):
                    continue
                if lhs != r or set(new_op.applied_columns(current)) != set(com.second.applied_columns(current.target)):
                    run.violate("commute_unsound", {"why": "reported as fully handled with nothing inserted, but the new "
                                                    "operation is not a no-op", "existing": str(cur_op), "new": str(new_op),
                                                    "expected": lhs[:6], "got": r[:6]}, entry=ent)
            continue
        # well-formedness of the reported operations
        tcols = _cols(current.target)
        first, second = com.first, com.second
        prob = None
        if not set(first.columns_required) <= tcols:
            prob = f"first {first} needs columns missing from its target"
        elif isinstance(first, Calculation) and first.tag in tcols:
            prob = f"first {first} recalculates an existing column"
        else:
            try:
                c1 = set(first.applied_columns(current.target))
            except Exception:
                c1 = None
            if c1 is not None:
                if not set(second.columns_required) <= c1:
                    prob = f"second {second} needs columns missing after first {first}"
                elif isinstance(second, Calculation) and second.tag in c1:
                    prob = f"second {second} recalculates an existing column"
        if prob is not None:
            run.violate("commute_unsound", {"why": prob, "existing": str(cur_op), "new": str(new_op)}, entry=ent)
            continue
        try:
            base = interp(w, current.target)
            fixed = None
            if isinstance(new_op, PartialJoin):
                fixed = interp(w, new_op.fixed)
        except (InterpError, KeyError):
            continue
        rng = random.Random(len(base) * 7919 + len(str(cur_op)))
        variants = [base]
        for _ in range(3):
            v = list(base)
            rng.shuffle(v)
            if v and rng.random() < 0.5:
                v.append(dict(rng.choice(v)))
            variants.append(v)

        def app(o, rows):
            if isinstance(o, PartialJoin):
                f = fixed if o is new_op else interp(w, o.fixed)
                return join_rows(o.binary, f, rows) if o.fixed_is_lhs else join_rows(o.binary, rows, f)
            return apply_unary(o, rows)

        for rows in variants:
            try:
                lhs = app(new_op, app(cur_op, rows))
                r = app(second, app(first, rows))
                if not com.done:
                    r = app(new_op, r)
            except (InterpError, KeyError) as e:
                run.violate("commute_unsound", {"why": f"reported operations cannot be evaluated: {e!r}",
                                                "existing": str(cur_op), "new": str(new_op)}, entry=ent)
                break
            if lhs != r:
                run.violate("commute_unsound", {
                    "why": "rows differ", "existing": str(cur_op), "new": str(new_op),
                    "first": str(first), "second": str(second), "done": com.done,
                    "target_rows": rows[:6], "expected": lhs[:6], "got": r[:6]}, entry=ent)
                break


def tree_semantics(run, ent, op, parents):
    """The tree the library built, read with list semantics, must mean what the
    applied operation sequence means (engine-independent; catches unsound merges,
    elisions and commutations without executing anything)."""
    from .known import _hidden_join_collision

    if _hidden_join_collision(ent.rel):
        return
    try:
        rows = interp(run.w, ent.rel)
    except InterpError:
        return
    except KeyError as e:
        run.violate("tree_semantics", {"why": f"tree refers to a column its operand does not have: {e}"}, entry=ent)
        return
    except ZeroDivisionError as e:
        # the applied sequence evaluates the partial function only on rows its guards let through (the model did
        # not raise, or there would be no entry); the tree the library built evaluates it on more rows
        fired = sorted(k for k in MON.events if k.startswith(("merge:", "then:", "commute:")))
        kind = "merge_semantics" if any(k.startswith(("merge:", "then:")) for k in fired) else "tree_semantics"
        run.violate(kind, {"why": "the tree evaluates a partial column function on rows the applied sequence "
                                  "had already excluded", "library_events": fired}, entry=ent, exc=e)
        return
    run.stats["tree_semantics_checked"] += 1
    cols = ent.mv.cols
    exp = [M.rowkey(r, cols) for r in ent.mv.rows]
    try:
        got = [M.rowkey(r, cols) for r in rows]
    except KeyError:
        return  # column mismatch is reported by check_new
    if exp != got:
        fired = sorted(k for k in MON.events if k.startswith(("merge:", "then:", "commute:")))
        kind = "merge_semantics" if any(k.startswith(("merge:", "then:")) for k in fired) else "tree_semantics"
        run.violate(kind, {"expected": exp[:8], "got": got[:8], "library_events": fired}, entry=ent)
    for m in MON.merges:
        run.dn.add(("merge", m[0], type(m[1]).__name__, str(m[1]), str(m[2])))


tree_semantics.on_process = True
