"""Tree interpreter (DESIGN §5.2): evaluates *library* relation trees with list
semantics, walking target/lhs/rhs and using only public attributes.  Ignores
payloads except at leaves, so it judges what a tree *means*, not what was cached.
"""
from __future__ import annotations

import functools

from .exprs import lib_eval_expr, lib_eval_pred


class InterpError(Exception):
    pass


def interp(world, rel, memo=None):
    """Return list of rows (dicts keyed by column name)."""
    if memo is None:
        memo = {}
    k = id(rel)
    if k in memo:
        return memo[k]
    out = _interp(world, rel, memo)
    memo[k] = out
    return out


def leaf_rows(world, rel):
    info = world.leaf_by_obj.get(id(rel))
    if info is not None:
        return [dict(zip(info["cols"], r)) for r in info["rows"]]
    name = rel.name
    if name.startswith("L") and name[1:].isdigit():
        info = world.leaves.get(int(name[1:]))
        if info is not None:
            return [dict(zip(info["cols"], r)) for r in info["rows"]]
    raise InterpError(f"unknown leaf {name}")


def apply_unary(op, rows, cols=None):
    t = type(op).__name__
    if t == "Calculation":
        tag = op.tag.qualified_name
        return [{**r, tag: lib_eval_expr(op.expression, r)} for r in rows]
    if t == "Projection":
        names = sorted(c.qualified_name for c in op.columns)
        return [{c: r[c] for c in names} for r in rows]
    if t == "Selection":
        return [r for r in rows if lib_eval_pred(op.predicate, r)]
    if t == "Deduplication":
        seen, out = set(), []
        for r in rows:
            key = tuple(sorted(r.items()))
            if key not in seen:
                seen.add(key)
                out.append(r)
        return out
    if t == "Sort":
        terms = [(s.expression, s.ascending) for s in op.terms]

        def cmp(r1, r2):
            for e, asc in terms:
                k1, k2 = lib_eval_expr(e, r1), lib_eval_expr(e, r2)
                if k1 != k2:
                    return (-1 if k1 < k2 else 1) * (1 if asc else -1)
            return 0

        return sorted(rows, key=functools.cmp_to_key(cmp))
    if t == "Slice":
        return rows[op.start:op.stop]
    if t == "Identity":
        return rows
    if t == "SimAtLeast":
        return list(rows) if len(rows) >= op.n else []
    if t == "SimStride":
        return rows[::op.k]
    if t == "SimOrderBy":
        return sorted(rows, key=lambda r: r[op.tag.qualified_name], reverse=op.descending)
    if t == "PartialJoin":
        raise InterpError("partial join needs fixed rows")
    raise InterpError(f"unknown unary {t}")


def _interp(world, rel, memo):
    t = type(rel).__name__
    if t == "LeafRelation":
        return leaf_rows(world, rel)
    if t == "UnaryOperationRelation":
        return apply_unary(rel.operation, interp(world, rel.target, memo))
    if t == "BinaryOperationRelation":
        l = interp(world, rel.lhs, memo)
        r = interp(world, rel.rhs, memo)
        ot = type(rel.operation).__name__
        if ot == "Chain":
            return l + r
        if ot == "Join":
            return join_rows(rel.operation, l, r)
        raise InterpError(f"unknown binary {ot}")
    if hasattr(rel, "target"):
        return interp(world, rel.target, memo)
    raise InterpError(f"unknown relation {t}")


def join_rows(join, l, r):
    common = sorted(c.qualified_name for c in join.common_columns)
    out = []
    for a in l:
        for b in r:
            if all(a[c] == b[c] for c in common):
                m = {**b, **a}
                if lib_eval_pred(join.predicate, m):
                    out.append(m)
    return out
