"""History model: independent list semantics for every pool entry (DESIGN §5.1)
with the determinacy flags of §5.3.  Shares no code with lsst.daf.relation.

Rows are dicts keyed by column *name*.
"""
from __future__ import annotations

import functools

from .exprs import eval_expr, eval_pred, expr_cols, pred_cols
from .tags import NONKEY


def is_sql(engine: str) -> bool:
    return engine.startswith("sql")


class MVal:
    __slots__ = (
        "cols", "engine", "rows", "upper", "order_det", "bag_det", "count_det",
        "sql_state", "sort_cols", "pending_sort", "hist", "events",
    )

    def __init__(self, cols, engine, rows, upper=None, order_det=True, bag_det=True, count_det=True,
                 sql_state=None, sort_cols=frozenset(), pending_sort=False, hist=(), events=frozenset()):
        self.cols = tuple(sorted(cols))
        self.engine = engine
        self.rows = rows
        self.upper = upper            # None => same bag as rows
        self.order_det = order_det
        self.bag_det = bag_det
        self.count_det = count_det
        self.sql_state = sql_state    # None | 'sorted' | 'sliced'   (SQL engine only)
        self.sort_cols = sort_cols
        self.pending_sort = pending_sort
        self.hist = hist
        self.events = events

    # -- helpers
    def up(self):
        return self.rows if self.upper is None else self.upper

    def derive(self, **kw) -> "MVal":
        d = {k: getattr(self, k) for k in self.__slots__}
        d.update(kw)
        v = MVal(**d)
        return _fix(v)

    def strength(self) -> str:
        if self.bag_det and self.order_det:
            return "list"
        if self.bag_det:
            return "bag"
        if self.count_det:
            return "count+subbag"
        return "subbag"


def _fix(v: MVal) -> MVal:
    if v.bag_det:
        v.upper = None
        v.count_det = True
        if len(v.rows) <= 1:
            v.order_det = True
    else:
        v.order_det = False
    if not is_sql(v.engine):
        v.sql_state = None
        v.pending_sort = False
        v.sort_cols = frozenset()
    return v


def rowkey(row, cols):
    return tuple(row[c] for c in cols)


def bag(rows, cols):
    out = {}
    for r in rows:
        k = rowkey(r, cols)
        out[k] = out.get(k, 0) + 1
    return out


def sub_bag(small, big) -> bool:
    return all(big.get(k, 0) >= n for k, n in small.items())


# ------------------------------------------------------------------ operations
def m_leaf(lid, engine, cols, rows) -> MVal:
    rows = [dict(zip(cols, r)) for r in rows]
    v = MVal(cols, engine, rows, order_det=not is_sql(engine), hist=("leaf", lid))
    return _fix(v)


def _sqlrules(v: MVal, pref, backtrack) -> bool:
    """Whether SQL ordering rules must be assumed for an operation applied to v."""
    return is_sql(v.engine) or (pref is not None and is_sql(pref) and backtrack and pref != v.engine)


def _order_pinned(v: MVal, pref) -> bool:
    """A SQL relation whose root SELECT carries a (total or merged) sort and no slice yet: a calculation or selection
    applied to it in the same engine does not change the relative order of the rows that remain, so a later slice
    must still be taken in that order - or the call that makes this impossible must refuse."""
    return is_sql(v.engine) and v.sql_state == "sorted" and v.order_det and pref in (None, v.engine)


def m_calc(v: MVal, tag, e, pref=None, backtrack=True) -> MVal:
    f = lambda rows: [{**r, tag: eval_expr(e, r)} for r in rows]
    sqlr = _sqlrules(v, pref, backtrack)
    pinned = _order_pinned(v, pref)
    return v.derive(
        cols=v.cols + (tag,), rows=f(v.rows), upper=None if v.upper is None else f(v.upper),
        order_det=v.order_det and (not sqlr or pinned), sql_state="sorted" if pinned else None,
        pending_sort=v.pending_sort if pinned else False,
        hist=("calc", v.hist, tag, _t(e)),
    )


def m_proj(v: MVal, cols, pref=None, backtrack=True) -> MVal:
    cols = tuple(sorted(cols))
    f = lambda rows: [{c: r[c] for c in cols} for r in rows]
    sqlr = _sqlrules(v, pref, backtrack)
    keep = v.order_det
    state = v.sql_state
    if sqlr:
        if is_sql(v.engine) and state is not None and pref in (None, v.engine):
            # SELECT <fewer columns> ... ORDER BY <anything the FROM clause has> [LIMIT]: the projection does not
            # disturb the order, whether or not it keeps the sort columns (the library must either compile it that
            # way or refuse)
            pass
        else:
            keep, state = False, None
    return v.derive(
        cols=cols, rows=f(v.rows), upper=None if v.upper is None else f(v.upper),
        order_det=keep, sql_state=state, hist=("proj", v.hist, cols),
    )


def m_sel(v: MVal, p, pref=None, backtrack=True) -> MVal:
    f = lambda rows: [r for r in rows if eval_pred(p, r)]
    sqlr = _sqlrules(v, pref, backtrack)
    pinned = _order_pinned(v, pref)
    return v.derive(
        rows=f(v.rows), upper=None if v.upper is None else f(v.upper),
        count_det=v.bag_det, order_det=v.order_det and (not sqlr or pinned), sql_state="sorted" if pinned else None,
        pending_sort=v.pending_sort if pinned else False,
        hist=("sel", v.hist, _t(p)),
    )


def _dedup(rows, cols):
    seen = set()
    out = []
    for r in rows:
        k = rowkey(r, cols)
        if k not in seen:
            seen.add(k)
            out.append(r)
    return out


def dedup_ok(v: MVal) -> bool:
    """Documented precondition of deduplication: key columns determine the row."""
    keys = [c for c in v.cols if c not in NONKEY]
    if len(keys) == len(v.cols):
        return True
    seen = {}
    for r in v.up():
        k = rowkey(r, keys)
        full = rowkey(r, v.cols)
        if seen.setdefault(k, full) != full:
            return False
    return True


def m_dedup(v: MVal, pref=None, backtrack=True) -> MVal:
    sqlr = _sqlrules(v, pref, backtrack)
    keep, state = v.order_det, v.sql_state
    if sqlr:
        if is_sql(v.engine) and state == "sorted" and v.sort_cols <= set(v.cols):
            pass        # (with a hidden sort column, which of several equal rows decides the position is not defined)
        else:
            keep, state = False, None
    return v.derive(
        rows=_dedup(v.rows, v.cols), upper=None if v.upper is None else _dedup(v.upper, v.cols),
        count_det=v.bag_det, order_det=keep, sql_state=state, hist=("dedup", v.hist),
    )


def _sorted(rows, terms):
    def cmp(r1, r2):
        for e, asc in terms:
            k1, k2 = eval_expr(e, r1), eval_expr(e, r2)
            if k1 != k2:
                return (-1 if k1 < k2 else 1) * (1 if asc else -1)
        return 0

    return sorted(rows, key=functools.cmp_to_key(cmp))


def sort_total(rows, cols, terms) -> bool:
    seen = {}
    for r in rows:
        k = tuple(eval_expr(e, r) for e, _ in terms)
        full = rowkey(r, cols)
        if seen.setdefault(k, full) != full:
            return False
    return True


def m_sort(v: MVal, terms, pref=None, backtrack=True) -> MVal:
    if not terms:
        return v
    sqlr = _sqlrules(v, pref, backtrack)
    total = sort_total(v.up(), v.cols, terms)
    scols = frozenset().union(*[expr_cols(e) for e, _ in terms])
    # In the SQL engine a sort applied while the root SELECT still carries an earlier (total) sort and no slice is
    # merged into the same ORDER BY (new terms first), which is exactly a stable sort of an ordered list.
    merged = is_sql(v.engine) and v.sql_state == "sorted" and v.order_det
    if sqlr:
        od = total or merged
    else:
        od = total or v.order_det
    if merged and not total:
        scols = scols | v.sort_cols
    return v.derive(
        rows=_sorted(v.rows, terms), upper=None if v.upper is None else _sorted(v.upper, terms),
        order_det=od, sql_state=("sorted" if ((total or merged) and is_sql(v.engine)) else None), sort_cols=scols,
        pending_sort=is_sql(v.engine), hist=("sort", v.hist, _t(terms)),
    )


def m_slice(v: MVal, start, stop) -> MVal:
    if start == 0 and stop is None:
        return v
    hist = ("slice", v.hist, start, stop)
    limit = None if stop is None else stop - start
    state = "sliced" if v.sql_state in ("sorted", "sliced") else None
    if v.order_det and v.bag_det:
        return v.derive(rows=v.rows[start:stop], sql_state=state, pending_sort=False, hist=hist)
    if limit == 0:
        return v.derive(rows=[], upper=None, bag_det=True, sql_state=None, pending_sort=False, hist=hist)
    if v.bag_det:
        n = len(v.rows)
        if start >= n:
            return v.derive(rows=[], sql_state=None, pending_sort=False, hist=hist)
        if start == 0 and stop >= n:
            return v.derive(sql_state=None, pending_sort=False, hist=hist)
        return v.derive(rows=v.rows[start:stop], upper=v.rows, bag_det=False, count_det=True,
                        sql_state=None, pending_sort=False, hist=hist)
    # input bag not determined
    if v.count_det:
        n = len(v.rows)
        return v.derive(rows=v.rows[start:stop], upper=v.up(), bag_det=False, count_det=True,
                        sql_state=None, pending_sort=False, hist=hist) if n else \
            v.derive(rows=[], upper=None, bag_det=True, sql_state=None, pending_sort=False, hist=hist)
    return v.derive(rows=v.rows[start:stop], upper=v.up(), bag_det=False, count_det=False,
                    sql_state=None, pending_sort=False, hist=hist)


def m_custom(v: MVal, op) -> MVal:
    """User-defined unary operations (iteration engines only): see world.SimAtLeast / SimStride / SimOrderBy."""
    k = op["op"]
    hist = ("custom:" + k, v.hist, op.get("n"), op.get("col"), op.get("desc"))
    if k == "orderby":
        r = m_sort(v, [[["ref", op["col"]], not op.get("desc")]])
        return r.derive(hist=hist)
    n = op["n"]
    if k == "atleast":
        if v.count_det:
            if len(v.rows) >= n:
                return v.derive(hist=hist)
            return v.derive(rows=[], upper=None, bag_det=True, hist=hist)
        return v.derive(rows=(v.rows if len(v.rows) >= n else []), upper=v.up(), bag_det=False, count_det=False, hist=hist)
    if k == "stride":
        if n == 1:
            return v.derive(hist=hist)
        if v.order_det and v.bag_det:
            return v.derive(rows=v.rows[::n], hist=hist)
        if v.bag_det and len(v.rows) <= 1:
            return v.derive(hist=hist)
        return v.derive(rows=v.rows[::n], upper=v.up(), bag_det=False, count_det=v.count_det, hist=hist)
    raise ValueError(op)


def m_chain(l: MVal, r: MVal) -> MVal:
    bd = l.bag_det and r.bag_det
    return _fix(MVal(
        l.cols, l.engine, l.rows + r.rows, upper=None if bd else l.up() + r.up(),
        order_det=(l.order_det and r.order_det and not is_sql(l.engine)), bag_det=bd,
        count_det=l.count_det and r.count_det, hist=("chain", l.hist, r.hist), events=l.events | r.events,
    ))


def _join(lrows, rrows, common, p):
    out = []
    for a in lrows:
        for b in rrows:
            if all(a[c] == b[c] for c in common):
                m = {**a, **b}
                if p is None or eval_pred(p, m):
                    out.append(m)
    return out


def m_join(l: MVal, r: MVal, p, engine=None) -> MVal:
    common = sorted(set(l.cols) & set(r.cols))
    bd = l.bag_det and r.bag_det
    eng = engine or r.engine
    return _fix(MVal(
        set(l.cols) | set(r.cols), eng, _join(l.rows, r.rows, common, p),
        upper=None if bd else _join(l.up(), r.up(), common, p),
        order_det=False, bag_det=bd, count_det=bd,
        hist=("join", l.hist, r.hist, _t(p)), events=l.events | r.events,
    ))


def m_mat(v: MVal, name) -> MVal:
    return v.derive(order_det=v.order_det and not is_sql(v.engine), sql_state=None, pending_sort=False,
                    hist=("mat", v.hist))


def m_xfer(v: MVal, to) -> MVal:
    if to == v.engine:
        return v
    od = v.order_det and not is_sql(to)
    return v.derive(engine=to, order_det=od, sql_state=None, pending_sort=False, hist=("xfer", v.hist, to))


def _t(x):
    """JSON list -> hashable nested tuple."""
    if isinstance(x, (list, tuple)):
        return tuple(_t(y) for y in x)
    return x


def hist_shape(h, depth=0) -> str:
    """Normalised shape string of a history expression (operation names only)."""
    if not isinstance(h, tuple) or not h:
        return "?"
    k = h[0]
    if k == "leaf":
        return "L"
    if k in ("chain", "join"):
        return f"{k}({hist_shape(h[1])},{hist_shape(h[2])})"
    if k == "xfer":
        return f"xfer>{h[2]}({hist_shape(h[1])})"
    if k == "mark":
        return f"mark({hist_shape(h[1])})"
    return f"{k}({hist_shape(h[1])})"


# -------------------------------------------------------------------- compare
def compare(mv: MVal, got, cols=None):
    """Compare executed rows (dicts keyed by name) with the model at the
    strongest level the determinacy flags allow.  Returns (strength, problem|None)."""
    cols = mv.cols if cols is None else cols
    st = mv.strength()
    if st == "list":
        exp = [rowkey(r, cols) for r in mv.rows]
        act = [rowkey(r, cols) for r in got]
        if exp != act:
            if sorted(exp) == sorted(act):
                return st, {"what": "order differs", "expected": exp, "got": act}
            return st, {"what": "rows differ", "expected": exp, "got": act}
        return st, None
    gb = bag(got, cols)
    if st == "bag":
        eb = bag(mv.rows, cols)
        if eb != gb:
            return st, {"what": "bag differs", "expected": sorted(eb.items()), "got": sorted(gb.items())}
        return st, None
    ub = bag(mv.up(), cols)
    if not sub_bag(gb, ub):
        return st, {"what": "rows outside the un-sliced model bag", "upper": sorted(ub.items()),
                    "got": sorted(gb.items())}
    if st == "count+subbag" and len(got) != len(mv.rows):
        return st, {"what": "row count differs", "expected": len(mv.rows), "got": len(got)}
    return st, None
