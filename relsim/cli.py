"""Command line: python -m relsim.cli <Cxx> quick|thorough | replay <file> | selftest ..."""
from __future__ import annotations

import os
import sys


def main(argv):
    if os.environ.get("PYTHONHASHSEED") is None:
        os.environ["PYTHONHASHSEED"] = "0"
        os.execv(sys.executable, [sys.executable, "-m", "relsim.cli"] + argv)
    import relsim  # noqa  (puts /repo/python on sys.path)

    if not argv:
        print(__doc__)
        return 2
    if argv[0] == "replay":
        import json

        if json.load(open(argv[1])).get("property") == "C19":
            from .threadsim import replay

            return replay(argv[1])
        from .runner import replay_file

        return replay_file(argv[1])
    if argv[0] == "selftest":
        from .selftest import main as st

        return st(argv[1:])
    prop = argv[0]
    tier = argv[1] if len(argv) > 1 else os.environ.get("VERIF_TIER", "quick")
    seed = int(os.environ.get("VERIF_SEED", "0"))
    budget = float(os.environ["RELSIM_BUDGET"]) if "RELSIM_BUDGET" in os.environ else None
    max_runs = int(os.environ["RELSIM_MAX_RUNS"]) if "RELSIM_MAX_RUNS" in os.environ else None
    if prop == "C19":
        from .threadsim import run_check as rc

        return rc(tier, seed, budget)
    from .runner import run_check

    return run_check(prop, tier, seed, budget, max_runs)


if __name__ == "__main__":
    sys.exit(main(sys.argv[1:]))
