"""Harness-side monitors: transparent wrappers (class attribute assignment at
import; /repo files are untouched) that record what the library did while a
factory call was running: commute() calls with their answers, simplify()/then()
merges, elisions.  Used by the C04/C05 oracles, by probes and by the
known-finding recognisers.
"""
from __future__ import annotations

import functools

from lsst.daf.relation import (
    Calculation,
    Deduplication,
    Projection,
    Selection,
    Slice,
    Sort,
)
from lsst.daf.relation._operations._join import PartialJoin
from lsst.daf.relation._unary_operation import Identity, UnaryOperation


class Monitor:
    def __init__(self):
        self.active = False
        self.commutes = []     # (new_op, current_rel, commutator)
        self.merges = []       # (kind, upstream_op, new_op, result_op)
        self.events = set()

    def reset(self):
        self.commutes = []
        self.merges = []
        self.events = set()


MON = Monitor()
_INSTALLED = False


def _wrap_commute(cls):
    orig = cls.__dict__.get("commute")
    if orig is None:
        return

    @functools.wraps(orig)
    def commute(self, current):
        res = orig(self, current)
        if MON.active:
            MON.commutes.append((self, current, res))
            cur = type(current.operation).__name__
            new = type(self).__name__
            outcome = "refused" if res.first is None else ("full" if res.done else "partial")
            MON.events.add(f"commute:{new}>{cur}:{outcome}")
        return res

    cls.commute = commute


def _wrap_simplify(cls):
    orig = cls.__dict__.get("simplify")
    if orig is None:
        return

    @functools.wraps(orig)
    def simplify(self, upstream):
        res = orig(self, upstream)
        if MON.active and res is not None:
            MON.merges.append(("simplify", upstream, self, res))
            MON.events.add(f"merge:{type(upstream).__name__}+{type(self).__name__}")
        return res

    cls.simplify = simplify


def _wrap_then(cls):
    orig = cls.__dict__.get("then")
    if orig is None:
        return

    @functools.wraps(orig)
    def then(self, next):
        if MON.active:
            MON.events.add(f"then:{cls.__name__}")
        res = orig(self, next)
        if MON.active:
            MON.merges.append(("then", self, next, res))
        return res

    cls.then = then


def install():
    global _INSTALLED
    if _INSTALLED:
        return
    _INSTALLED = True
    from lsst.daf.relation import Reordering, RowFilter

    # (the two extensible bases are wrapped too, in case they ever define what their subclasses inherit)
    for cls in (Calculation, Deduplication, Projection, Selection, Slice, Sort, PartialJoin, Identity, UnaryOperation,
                RowFilter, Reordering):
        _wrap_commute(cls)
    for cls in (Calculation, Deduplication, Projection, Selection, Slice, Sort, Identity, UnaryOperation, RowFilter, Reordering):
        _wrap_simplify(cls)
    for cls in (Slice, Sort):
        _wrap_then(cls)
