"""Batch runner: seeded search over scenarios in worker processes, fault
placement, minimisation, replay files, known findings, evidence."""
from __future__ import annotations

import copy
import faulthandler
import hashlib
import json
import multiprocessing
import os
import random
import subprocess
import sys
import time
import traceback
from collections import Counter
from concurrent.futures import ProcessPoolExecutor, as_completed

from . import VERIF

NPROC = int(os.environ.get("RELSIM_NPROC", "16"))


def derive_seed(*parts) -> int:
    h = hashlib.sha256("|".join(str(p) for p in parts).encode()).digest()
    return int.from_bytes(h[:8], "big")


# ------------------------------------------------------------------- one run
def make_scenario(profile, base_seed, idx, tier):
    rng = random.Random(derive_seed(base_seed, profile.prop, idx, "gen"))
    sc = profile.gen(rng, tier)
    sc["seed"] = derive_seed(base_seed, profile.prop, idx, "world") % (2**31)
    sc["run_index"] = idx
    return sc, rng


def execute(profile, sc, armed, count_mode=False):
    from .execu import Run

    run = Run(sc, profile, armed=armed, count_mode=count_mode)
    run.execute()
    return run


def crossings(run, sites):
    out = []
    for i, counts in enumerate(run.cross_counts):
        for s in sites:
            for n in range(counts.get(s, 0)):
                out.append((i, s, n))
    return out


def place_faults(sc, placements):
    sc = copy.deepcopy(sc)
    for i, s, n in placements:
        sc["ops"][i].setdefault("faults", []).append([s, n])
    return sc


def claimed(profile, run):
    return [v for v in run.violations if v.get("property") == profile.prop]


def run_index(profile, base_seed, idx, tier, armed, agg):
    """Generate and execute run #idx (plus its fault variants); update agg."""
    sc, rng = make_scenario(profile, base_seed, idx, tier)
    faulting = bool(profile.fault_sites) and rng.random() < profile.fault_fraction
    variants = [sc]
    if faulting:
        base = execute(profile, sc, armed, count_mode=True)
        account(profile, agg, sc, base, faulted=False)
        cr = crossings(base, profile.fault_sites)
        variants = []
        if cr:
            if profile.enumerate_faults and tier == "thorough":
                if len(cr) > 64:
                    cr = rng.sample(cr, 64)
                variants = [place_faults(sc, [c]) for c in cr]
            else:
                k = 1 if rng.random() < 0.6 else rng.randint(2, 4)
                nvar = 3 if profile.enumerate_faults else 1
                for _ in range(nvar):
                    variants.append(place_faults(sc, rng.sample(cr, min(k, len(cr)))))
        for v in variants:
            for op in v["ops"]:
                for s, _ in op.get("faults", []):
                    agg["faults_armed"][s] += 1
    for v in variants:
        run = execute(profile, v, armed)
        account(profile, agg, v, run, faulted=faulting)


def account(profile, agg, sc, run, faulted):
    agg["runs"] += 1
    agg["digest_xor"] ^= int(run.digest()[:16], 16)
    for k in ("hash_mode", "db_reverse", "db_shuffle", "hook_mode"):
        agg["configs"][f"{k}={sc['config'].get(k)}"] += 1
    agg["fault_runs" if faulted else "clean_runs"] += 1
    agg["sim_steps"] += len(run.cross_counts)
    agg["stats"].update(run.stats)
    agg["probes"].update(run.probes)
    agg["known_hits"].update(run.known_hits)
    agg["faults_fired"].update(run.w.fault.total_fired)
    agg["fault_crossings"].update(run.w.fault.total_cross)
    for e in run.pool:
        for ev in e.events:
            agg["events"][ev] += 1
    for k in profile.dn_keys(run):
        agg["dn"].add(hashlib.sha1(json.dumps(k, sort_keys=True, default=str).encode()).hexdigest()[:16])
    for s in run.shapes:
        agg["shapes"].add(hashlib.sha1(s.encode()).hexdigest()[:16])
    agg["schedules"].add(hashlib.sha1(json.dumps([o["k"] for o in sc["ops"]]).encode()).hexdigest()[:16])
    other = [v for v in run.violations if v.get("property") != profile.prop]
    for v in other:
        agg["other_property_signals"][f"{v['kind']}"] += 1
    if len(agg["samples"]) < 3 and len(run.pool) >= 3:
        agg["samples"].append({"scenario": sc, "digest": run.digest()[:16],
                               "final_tree": str(run.pool[-1].rel)[:300]})
    for v in claimed(profile, run):
        if len(agg["violations"]) < 20:
            agg["violations"].append({"violation": v, "scenario": sc})
        agg["nviol"] += 1


def new_agg():
    return {
        "runs": 0, "clean_runs": 0, "fault_runs": 0, "sim_steps": 0, "nviol": 0, "digest_xor": 0, "configs": Counter(),
        "stats": Counter(), "probes": Counter(), "known_hits": Counter(), "events": Counter(),
        "faults_armed": Counter(), "faults_fired": Counter(), "fault_crossings": Counter(),
        "other_property_signals": Counter(),
        "dn": set(), "shapes": set(), "schedules": set(), "samples": [], "violations": [], "harness_errors": [],
    }


def merge(a, b):
    for k, v in b.items():
        if isinstance(v, Counter):
            a[k].update(v)
        elif isinstance(v, set):
            a[k] |= v
        elif k == "digest_xor":
            a[k] ^= v
        elif isinstance(v, int):
            a[k] += v
        elif k == "samples":
            a[k] = (a[k] + v)[:3]
        elif isinstance(v, list):
            a[k] = (a[k] + v)[:40]
    return a


class RunTimeout(Exception):
    pass


def _alarm(signum, frame):
    raise RunTimeout("run exceeded its wall-clock cap")


def worker(prop, base_seed, start, stride, tier, armed, deadline, max_total):
    import signal

    faulthandler.enable()
    faulthandler.dump_traceback_later(max(60, deadline - time.time() + 120), exit=True)
    signal.signal(signal.SIGALRM, _alarm)
    from .profiles import PROFILES

    profile = PROFILES[prop]
    agg = new_agg()
    idx = start
    n = 0
    while time.time() < deadline and idx < max_total:
        try:
            signal.alarm(20)
            run_index(profile, base_seed, idx, tier, armed, agg)
            signal.alarm(0)
        except Exception:  # harness bug: never a violation, never success
            signal.alarm(0)
            agg["harness_errors"].append({"run_index": idx, "trace": traceback.format_exc()[-1500:]})
            if len(agg["harness_errors"]) > 5:
                break
        if agg["nviol"] >= 6:
            break
        idx += stride
        n += 1
    faulthandler.cancel_dump_traceback_later()
    return agg


# ----------------------------------------------------------------- findings
def arm_findings(prop):
    """Replay the witness of every `known` finding; a witness that still fails
    arms its recogniser (and prints KNOWN-FINDING if the finding is listed for
    this property).  `fixed` findings are never armed."""
    from .known import load_findings
    from .profiles import PROFILES

    armed = {}
    for f in load_findings():
        if f["status"] != "known":
            continue
        wit = f["witness"]
        run = execute(PROFILES[wit["profile"]], wit["scenario"], armed=frozenset())
        if any(v.get("would_be_finding") == f["id"] for v in run.violations):
            armed[f["id"]] = f
            if prop in f["properties"]:
                print(f"KNOWN-FINDING: property={prop} {f['id']} {f['what_fails']}")
    return armed


# -------------------------------------------------------------------- replay
def sig_of(v):
    return {"kind": v["kind"], "property": v.get("property"), "exc_type": v.get("exc_type")}


def replay_file(path):
    from .profiles import PROFILES

    with open(path) as f:
        rep = json.load(f)
    profile = PROFILES[rep["profile"]]
    armed = frozenset(rep.get("armed", []))
    run = execute(profile, rep["scenario"], armed)
    want = rep["signature"]
    got = [sig_of(v) for v in claimed(profile, run)]
    print("replay digest", run.digest()[:16])
    for v in claimed(profile, run):
        print("  violation:", json.dumps(sig_of(v)), json.dumps(v.get("detail"), default=str)[:300])
    if want in got:
        print(f"REPRODUCED property={rep['property']} kind={want['kind']}")
        return 1
    print("NOT-REPRODUCED")
    return 3


def minimise_and_write(profile, item, armed, tier, base_seed, n):
    from .shrink import shrink

    v, sc = item["violation"], item["scenario"]
    want = sig_of(v)

    def fails(cand):
        try:
            run = execute(profile, cand, armed)
        except Exception:
            return False
        return want in [sig_of(x) for x in claimed(profile, run)]

    small, calls = shrink(sc, fails)
    run = execute(profile, small, armed)
    vv = [x for x in claimed(profile, run) if sig_of(x) == want]
    rep = {
        "property": profile.prop, "profile": profile.prop, "tier": tier, "base_seed": base_seed,
        "signature": want, "violation": vv[0] if vv else v, "scenario": small,
        "original_ops": len(sc["ops"]), "minimised_ops": len(small["ops"]), "shrink_executions": calls,
        "armed": sorted(armed), "digest": run.digest(),
    }
    rdir = os.environ.get("RELSIM_REPLAY_DIR", os.path.join(VERIF, "replays"))
    os.makedirs(rdir, exist_ok=True)
    path = os.path.join(rdir, f"{profile.prop}_{tier}_{base_seed}_{n}.json")
    with open(path, "w") as f:
        json.dump(rep, f, indent=1, default=str)
    # must reproduce in a fresh interpreter
    env = dict(os.environ, PYTHONHASHSEED="1")
    p = subprocess.run([sys.executable, "-m", "relsim.cli", "replay", path], cwd=VERIF, env=env,
                       capture_output=True, text=True, timeout=120)
    ok = "REPRODUCED" in p.stdout and "NOT-REPRODUCED" not in p.stdout
    return path, ok, rep


# --------------------------------------------------------------------- batch
def run_check(prop, tier, base_seed, budget_s=None, max_runs=None):
    from .profiles import PROFILES

    t0 = time.time()
    profile = PROFILES[prop]
    if budget_s is None:
        budget_s = profile.budget(tier)
    armed_info = arm_findings(prop)
    armed = frozenset(armed_info)
    deadline = t0 + budget_s
    per = max_runs if max_runs is not None else 10**9
    agg = new_agg()
    ctx = multiprocessing.get_context("fork")
    harness_fail = None
    with ProcessPoolExecutor(max_workers=NPROC, mp_context=ctx) as ex:
        futs = [ex.submit(worker, prop, base_seed, k, NPROC, tier, armed, deadline, per) for k in range(NPROC)]
        for fu in as_completed(futs, timeout=budget_s + 600):
            try:
                merge(agg, fu.result())
            except Exception as e:  # dead worker
                harness_fail = f"worker failed: {e!r}"
    wall = time.time() - t0
    status = 0
    reported = []
    seen = set()
    for n, item in enumerate(agg["violations"]):
        key = json.dumps(sig_of(item["violation"]), sort_keys=True)
        if key in seen:
            continue
        seen.add(key)
        path, ok, rep = minimise_and_write(profile, item, armed, tier, base_seed, n)
        if not ok:
            harness_fail = f"replay {path} did not reproduce in a fresh interpreter (nondeterministic)"
            print(f"HARNESS-ERROR nondeterministic replay {path}")
            continue
        print(f"VIOLATION property={prop} replay={path}")
        print("  " + json.dumps(rep["signature"]) + " ops=" + str(rep["minimised_ops"]))
        reported.append(path)
        status = 1
        if len(reported) >= 3:
            break
    for fid, n in sorted(agg["known_hits"].items()):
        f = armed_info.get(fid)
        if f is not None and prop not in f["properties"]:
            print(f"KNOWN-FINDING: property={prop} {fid} (surfaced here {n}x) {f['what_fails']}")
    if agg["harness_errors"]:
        harness_fail = f"{len(agg['harness_errors'])} harness errors"
        for h in agg["harness_errors"][:2]:
            print("HARNESS-ERROR", h["run_index"], h["trace"])
    write_evidence(profile, tier, base_seed, agg, time.time() - t0, wall, len(reported), armed)
    if status == 0 and harness_fail:
        print("HARNESS-ERROR", harness_fail)
        return 2
    if status == 0:
        print(f"OK property={prop} tier={tier} runs={agg['runs']} evaluations={sum(agg['stats'].get(k, 0) for k in profile.eval_stats)} "
              f"distinct_nontrivial={len(agg['dn'])} wall={wall:.1f}s")
    return status


def write_evidence(profile, tier, base_seed, agg, wall_total, wall_search, nviol, armed):
    if os.environ.get("RELSIM_NOEVIDENCE"):
        return
    stats = agg["stats"]
    cmp_hist = {k[4:]: v for k, v in stats.items() if k.startswith("cmp:")}
    ev = {
        "property_id": profile.prop,
        "tier": tier,
        "seed": base_seed,
        "level": profile.level,
        "wall_s": round(wall_total, 2),
        "violations": nviol,
        "coverage": {
            "evaluations": max(1, sum(int(stats.get(k, 0)) for k in profile.eval_stats)),
            "evaluations_counted": list(profile.eval_stats),
            "distinct_nontrivial": len(agg["dn"]),
            "rule": profile.dn_rule,
            "samples": agg["samples"][:3],
            "runs": agg["runs"],
            "clean_runs": agg["clean_runs"],
            "fault_runs": agg["fault_runs"],
            "runs_per_hour": int(agg["runs"] / max(wall_search, 1e-6) * 3600),
            "seeds": f"VERIF_SEED={base_seed}; run index i uses sha256(seed|{profile.prop}|i|gen) for generation "
                     f"and sha256(seed|{profile.prop}|i|world) for the environment PRNG",
            "sim_steps": agg["sim_steps"],
            "simulated_time": "none: the library reads no clock; progress is counted in scheduler steps (sim_steps)",
            "faults_armed": dict(agg["faults_armed"]),
            "faults_fired": dict(agg["faults_fired"]),
            "fault_site_crossings": dict(agg["fault_crossings"]),
            "runs_digest_xor": f"{agg['digest_xor']:016x}",
            "swarm_configurations": dict(agg["configs"]),
            "distinct_schedules": len(agg["schedules"]),
            "distinct_tree_shapes": len(agg["shapes"]),
            "comparison_strength": cmp_hist,
            "probes": dict(agg["probes"]),
            "library_events": dict(sorted(agg["events"].items(), key=lambda kv: -kv[1])[:40]),
            "stats": {k: v for k, v in stats.items() if not k.startswith("cmp:")},
            "known_finding_hits": dict(agg["known_hits"]),
            "known_findings_armed": sorted(armed),
            "other_property_signals_not_reported_here": dict(agg["other_property_signals"]),
            "components": {
                "real": ["lsst.daf.relation (all of /repo/python, current working tree)", "SQLAlchemy", "SQLite (in memory)"],
                "stub": ["SimTag (ColumnTag with harness-owned hash)", "SimRows/StreamRows (leaf payloads / cursors)",
                         "SimProcessor (transfer/materialize hooks)", "DbSeam (physical order, statement faults)",
                         "seeded uuid4", "history model + tree interpreter (oracles)"],
            },
            "exhaustive": False,
        },
        "assumptions": profile.assumptions(),
    }
    edir = os.environ.get("RELSIM_EVIDENCE_DIR", os.path.join(VERIF, "evidence"))
    os.makedirs(edir, exist_ok=True)
    with open(os.path.join(edir, f"{profile.prop}.json"), "w") as f:
        json.dump(ev, f, indent=1, default=str)
