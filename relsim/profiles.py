"""Per-property profiles: workload generator, oracle claims, fault kinds."""
from __future__ import annotations

from .gen import Gen, swarm_config


class Profile:
    prop = "C00"
    level = "exploration"
    claims: dict = {}
    eval_new = False
    both_orders = False
    track_payloads = False
    track_fingerprints = False
    new_entry_hooks: tuple = ()
    known_gate = True
    fault_sites: tuple = ()
    fault_fraction = 0.5          # fraction of runs in the faulting batch
    enumerate_faults = False
    recover_kinds = ("run", "process", "pull")
    dn_rule = ""
    technique = "deterministic simulation: seeded scenario search + fault injection"

    quick_s = 22
    thorough_s = 480

    def budget(self, tier):
        return self.quick_s if tier == "quick" else self.thorough_s

    def assumptions(self):
        return [
            "sampling, not enumeration: a clean batch is evidence, not proof",
            "history model / tree interpreter (relsim/model.py, interp.py) are the trusted oracles",
            "SQLite in memory stands for 'the database'; SQLAlchemy as installed",
            "determinacy gating (DESIGN 5.3): a comparison is only as strong as the model can justify",
        ]

    def gen(self, rng, tier):
        raise NotImplementedError

    def dn_keys(self, run):
        """Keys (hashable, JSON-able) of distinct non-trivial cases seen in this run."""
        return set()


UNARY_W = {"calc": 3, "proj": 3, "sel": 3, "dedup": 2, "sort": 3, "slice": 3}


class C01(Profile):
    prop = "C01"
    claims = {k: "C01" for k in ("rows_mismatch", "keys_mismatch", "columns_mismatch")}
    eval_new = True
    fault_sites = ("leaf_iter", "udf")
    dn_rule = ("scenario = seeded iteration-engine op sequence over instrumented leaves; distinct = normalised "
               "library tree shape (operation/node types) of an evaluated entry; non-trivial = at least one of "
               "{merge/elision, max_rows==0 shortcut, join-identity shortcut, cursor interleaving} fired in that run")

    def gen(self, rng, tier):
        big = tier == "thorough"
        g = Gen(
            rng, engines=["it", "it2"] if rng.random() < 0.5 else ["it"],
            weights={**UNARY_W, "chain": 2, "mat": 1, "xfer": 1, "leaf": 1, "run": 2,
                     "cursor_open": 1.5, "pull": 3, "abandon": 0.4},
            max_ops=16 if big else 10, udf_p=0.08, special_leaf_p=0.06,
            bounds=("exact", "exact", "loose", "zeromin", "unbounded"),
        )
        ops = g.build()
        return {"config": swarm_config(rng), "ops": ops}

    def dn_keys(self, run):
        nontrivial = any(k.startswith(("merge:", "then:")) for e in run.pool for k in e.events) or \
            run.stats.get("cursor_completed", 0) or run.probes.get("max_rows_zero_shortcut", 0)
        return set(run.shapes) if nontrivial else set()


PROFILES = {c.prop: c() for c in (C01,)}
