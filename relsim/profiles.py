"""Per-property profiles: workload generator, oracle claims, fault kinds."""
from __future__ import annotations

from .gen import Gen, swarm_config


class Profile:
    prop = "C00"
    level = "exploration"
    claims: dict = {}
    eval_new = False
    both_orders = False
    track_payloads = False
    track_fingerprints = False
    new_entry_hooks: tuple = ()
    known_gate = True
    structural_only = False       # C14: rows are not evaluated, so joins the documentation leaves unspecified are allowed
    fault_sites: tuple = ()
    fault_fraction = 0.5          # fraction of runs in the faulting batch
    enumerate_faults = False
    recover_kinds = ("run", "process", "pull")
    dn_rule = ""
    technique = "deterministic simulation: seeded scenario search + fault injection"

    quick_s = 22
    thorough_s = 480
    eval_stats = ("evaluations",)     # which counters make up evidence.coverage.evaluations

    def budget(self, tier):
        return self.quick_s if tier == "quick" else self.thorough_s

    def assumptions(self):
        return [
            "sampling, not enumeration: a clean batch is evidence, not proof",
            "history model / tree interpreter (relsim/model.py, interp.py) are the trusted oracles",
            "SQLite in memory stands for 'the database'; SQLAlchemy as installed",
            "determinacy gating (DESIGN 5.3): a comparison is only as strong as the model can justify",
        ]

    def claim(self, kind, entry, run, v):
        return self.claims.get(kind)

    def gen(self, rng, tier):
        raise NotImplementedError

    def dn_keys(self, run):
        """Keys (hashable, JSON-able) of distinct non-trivial cases seen in this run."""
        return set()


UNARY_W = {"calc": 3, "proj": 3, "sel": 3, "dedup": 2, "sort": 3, "slice": 3}


class C01(Profile):
    prop = "C01"
    claims = {k: "C01" for k in ("rows_mismatch", "keys_mismatch", "columns_mismatch", "no_recovery")}
    eval_new = True
    recover_kinds = ("run",)
    fault_sites = ("leaf_iter", "udf", "udf_stop", "udf_type")
    dn_rule = ("scenario = seeded iteration-engine op sequence over instrumented leaves; distinct = normalised "
               "library tree shape (operation/node types) of an evaluated entry; non-trivial = at least one of "
               "{merge/elision, max_rows==0 shortcut, join-identity shortcut, cursor interleaving} fired in that run")

    def gen(self, rng, tier):
        big = tier == "thorough"
        g = Gen(
            rng, engines=["it", "it2"] if rng.random() < 0.5 else ["it"],
            weights={**UNARY_W, "chain": 2, "mat": 1, "xfer": 1, "leaf": 1, "run": 2, "reuse_mat": 0.6,
                     "cursor_open": 1.5, "pull": 3, "abandon": 0.4, "custom": 1.5, "process": 0.4,
                     "flag_on_processed": 0.4, "redeclared_twin": 0.6, "ephemeral": 1.0, "mark": 0.8, "guarded": 0.8},
            max_ops=16 if big else 10, udf_p=0.08, special_leaf_p=0.06, pipeline_p=0.3, flags_p=0.1, redeclare_p=0.12,
            bounds=("exact", "exact", "loose", "zeromin", "unbounded"),
        )
        ops = g.build()
        # in a third of the runs nothing is evaluated when it is built: only the explicit run / cursor / process ops
        # evaluate, in whatever order the history says (a derived relation may be evaluated before its base)
        return {"config": swarm_config(rng, eval_new=rng.random() < 0.67), "ops": ops}

    def dn_keys(self, run):
        nontrivial = any(k.startswith(("merge:", "then:")) for e in run.pool for k in e.events) or \
            run.stats.get("cursor_completed", 0) or run.probes.get("max_rows_zero_shortcut", 0)
        return set(run.shapes) if nontrivial else set()


def _has(h, name):
    """Does the history expression contain operation `name`?"""
    if not isinstance(h, tuple):
        return False
    if h and h[0] == name:
        return True
    return any(_has(x, name) for x in h[1:] if isinstance(x, tuple))


class C02(Profile):
    prop = "C02"
    claims = {k: "C02" for k in ("rows_mismatch", "keys_mismatch", "columns_mismatch")}
    eval_new = True
    both_orders = True

    def claim(self, kind, entry, run, v):
        from . import model as M

        if entry is not None and not M.is_sql(entry.mv.engine):
            return None          # (results of the iteration engine are C01 / C07 matters)
        return self.claims.get(kind)
    dn_rule = ("scenario = seeded SQL-engine op sequence over SQLite tables, every new relation compiled and run under "
               "both physical scan orders; distinct = normalised library tree shape; non-trivial = shape contains "
               ">= 2 Select levels or a join or a chain")

    def gen(self, rng, tier):
        big = tier == "thorough"
        if rng.random() < 0.2:
            # SQL relations built on payload-carrying markers: sources uploaded from an iteration engine, processed
            # trees that later relations keep sharing (what is compiled then includes cached payloads)
            w = {**UNARY_W, "chain": 1.5, "join": 2, "leaf": 1.5, "xfer": 3, "mat": 1.5, "process": 2, "run": 1.5,
                 "redeclared_twin": 0.5}
            return multi_gen(rng, tier, weights=w, flags_p=0.0, engines=["sql", "it"], udf_p=0.05, redeclare_p=0.1,
                             pref_engines=["sql"])
        g = Gen(
            rng, engines=["sql"],
            weights={**UNARY_W, "chain": 2, "join": 3, "leaf": 1.5, "ephemeral": 0.8, "redeclared_twin": 0.4},
            max_ops=14 if big else 9, nleaves=(2, 4), hidden_p=0.3, udf_p=0.05, redeclare_p=0.08, max_rows=7,
            bounds=("exact", "loose", "zeromin", "unbounded"), special_leaf_p=0.05, adjacent_p=0.3, pipeline_p=0.4,
        )
        return {"config": swarm_config(rng), "ops": g.build()}

    def dn_keys(self, run):
        return {s for s in run.shapes if s.count("Select") >= 2 or "Join" in s or "Chain" in s}


def multi_gen(rng, tier, *, weights, flags_p=0.5, engines=None, max_ops=None, config_over=None, **kw):
    big = tier == "thorough"
    engines = engines or (["sql", "it", "it2"] if rng.random() < 0.35 else ["sql", "it"])
    kw.setdefault("hidden_p", 0.15)
    g = Gen(rng, engines=engines, weights=weights, max_ops=max_ops or (14 if big else 9), nleaves=(1, 3),
            flags_p=flags_p, **kw)
    return {"config": swarm_config(rng, **(config_over or {})), "ops": g.build()}


MULTI_W = {**UNARY_W, "xfer": 4, "mat": 1.2, "chain": 1, "join": 1.2, "leaf": 1, "chain_empty": 0.3, "roundtrip_empty": 0.25, "mark": 0.6, "custom": 1.2, "marker_tower": 0.25}


class C03(Profile):
    prop = "C03"
    claims = {k: "C03" for k in ("rows_mismatch", "columns_mismatch", "backtrack_column_error", "engine_mismatch",
                                 "transfer_flag_ignored", "require_flag_violated", "tree_semantics", "unexpected_exception")}
    eval_new = True
    dn_rule = ("scenario = seeded multi-engine history (SQL / iteration sources, transfers, materializations) with "
               "preferred-engine flags on every unary op and join; every result is processed and executed; distinct = "
               "(operation type, flag combination, library tree shape); non-trivial = the library performed at least "
               "one commute() while inserting the operation (i.e. backtracking actually moved something)")

    def __init__(self):
        from . import oracles

        self.new_entry_hooks = (oracles.tree_semantics,)

    def claim(self, kind, entry, run, v):
        if kind == "unexpected_exception":
            # a valid operation rejected because of where backtracking tried to put it
            if entry is None or not self._flagged(entry) or self._plain_variant_raises(run, entry):
                return None
        if kind in ("rows_mismatch", "tree_semantics", "columns_mismatch", "keys_mismatch"):
            # attributable to preferred-engine insertion only if this very call used it and
            # the same call without the options does not show the same discrepancy
            if entry is None or not self._flagged(entry):
                return None
            if self._plain_variant_same(run, entry, executed=(kind == "rows_mismatch")):
                return None
        return self.claims.get(kind)

    @staticmethod
    def _flagged(entry):
        op = entry.op
        if op.get("pe") is not None and entry.parents and op["pe"] != entry.parents[0].mv.engine:
            return True
        return op["k"] == "join" and len(entry.parents) == 2 and entry.parents[0].mv.engine != entry.parents[1].mv.engine

    @staticmethod
    def _plain_variant_raises(run, entry):
        op = {k: v for k, v in entry.op.items() if k not in ("pe", "bt", "tr", "rq")}
        if op["k"] == "join":
            return False
        try:
            run.build_call(op, entry.parents)()
        except Exception:
            return True
        return False

    @staticmethod
    def _plain_variant_same(run, entry, executed=False):
        """Does root application (no preferred-engine options) show the same discrepancy as what was built?
        For tree-level kinds the two trees are compared by meaning (tree interpreter); for executed rows the
        plain variant is executed too and compared with the model."""
        from .interp import InterpError, interp

        op = {k: v for k, v in entry.op.items() if k not in ("pe", "bt", "tr", "rq")}
        if op["k"] == "join":
            return False
        try:
            plain = run.build_call(op, entry.parents)()
        except Exception:
            return False
        if executed:
            from . import model as M
            from .execu import Entry

            try:
                rows, _ = run.evaluate(Entry(plain, entry.mv, op, entry.parents))
            except Exception:
                return True          # root application cannot even be executed: not a backtracking problem
            _, problem = M.compare(entry.mv, rows)
            return problem is not None

        def meaning(rel):
            try:
                rows = interp(run.w, rel)
                return [tuple(sorted(r.items())) for r in rows]
            except (InterpError, KeyError) as e:
                return ("error", type(e).__name__)

        return meaning(plain) == meaning(entry.rel)

    def gen(self, rng, tier):
        return multi_gen(rng, tier, weights={**MULTI_W, "process": 1.5, "join": 2, "flag_on_processed": 0.8}, flags_p=0.6, udf_p=0.04,
                         special_leaf_p=0.06)

    def dn_keys(self, run):
        from .world import shape

        out = set()
        for e in run.pool:
            if e.op.get("pe") is not None and any(k.startswith("commute:") for k in e.events):
                out.add((e.op["k"], e.op.get("pe"), e.op.get("bt", True), e.op.get("tr", False), e.op.get("rq", False),
                         shape(e.rel)))
        return out


class C04(C03):
    prop = "C04"
    eval_stats = ('commutes_checked',)
    eval_new = False
    claims = {"commute_unsound": "C04"}
    dn_rule = ("in-run monitor: every commute() call the library makes while backtracking in the C03 workload is captured "
               "with its arguments and answer and judged by the tree interpreter on the real target rows plus 3 seeded "
               "permutations/duplications; distinct = (existing type, new type, outcome full/partial/refused, "
               "#required columns, #target columns)")

    def __init__(self):
        from . import oracles

        self.new_entry_hooks = (oracles.commute_sound,)

    def claim(self, kind, entry, run, v):
        return self.claims.get(kind)

    def gen(self, rng, tier):
        return multi_gen(rng, tier, weights={**MULTI_W, "xfer": 5}, flags_p=0.75, udf_p=0.04, special_leaf_p=0.06)

    def dn_keys(self, run):
        return {k for k in run.dn if k and k[0] == "commute"}


class C05(Profile):
    prop = "C05"
    claims = {k: "C05" for k in ("merge_semantics", "merge_exception", "rows_mismatch", "exec_exception")}
    eval_new = True
    dn_rule = ("single-engine histories (iteration or SQL) skewed to adjacent same-kind operations, do-nothing operations, "
               "empty windows and windows beyond the upstream window; on every entry the library tree is read by the tree "
               "interpreter and executed by the engine; distinct = (merge site, upstream operation, new operation) of merges "
               "that fired")

    def __init__(self):
        from . import oracles

        self.new_entry_hooks = (oracles.tree_semantics,)

    def claim(self, kind, entry, run, v):
        if kind in ("rows_mismatch", "exec_exception"):
            if entry is None or not any(k.startswith(("merge:", "then:")) for k in entry.events):
                return None
        return self.claims.get(kind)

    def gen(self, rng, tier):
        big = tier == "thorough"
        eng = rng.choice(["it", "sql"])
        g = Gen(rng, engines=[eng],
                weights={"calc": 2, "proj": 3, "sel": 3, "dedup": 1, "sort": 3, "slice": 4, "chain": 1.5, "leaf": 0.7,
                         "custom": 2 if eng == "it" else 0, "guarded": 1.5 if eng == "it" else 0, "ephemeral": 1.0},
                max_ops=14 if big else 9, nleaves=(1, 2), adjacent_p=0.6, total_sort_p=0.3, pipeline_p=0.3, stride_order_only=True,
                udf_p=0.04)
        return {"config": swarm_config(rng), "ops": g.build()}

    def dn_keys(self, run):
        return {k for k in run.dn if k and k[0] == "merge"}


class C06(Profile):
    prop = "C06"
    claims = {k: "C06" for k in ("keys_mismatch", "count_out_of_bounds", "flags_wrong", "columns_mismatch", "rows_mismatch")}
    eval_new = True
    dn_rule = ("histories in both engines and across engines over leaves whose declared bounds are exact / loose / zero-min / "
               "unbounded / doomed / join-identity but truthful; every result executed; distinct = (library tree shape, "
               "(min_rows,max_rows)) with a non-trivial bound (max_rows not None or min_rows > 0)")

    def claim(self, kind, entry, run, v):
        if kind == "rows_mismatch":
            # attributed here only when a metadata-keyed short-cut is involved
            from .world import walk

            if entry is None:
                return None
            short = any(n.max_rows == 0 or n.is_join_identity for n in walk(entry.rel)) or                 any(p.rel.is_join_identity or p.rel.max_rows == 0 for p in entry.parents)
            if not short:
                return None
        return self.claims.get(kind)

    def gen(self, rng, tier):
        big = tier == "thorough"
        mode = rng.choice(["sql", "it", "multi"])
        engines = {"sql": ["sql"], "it": ["it", "it2"] if rng.random() < 0.4 else ["it"], "multi": ["sql", "it"]}[mode]
        w = {**UNARY_W, "chain": 2.5, "chain_empty": 1, "join": 2.5 if mode != "it" else 0, "leaf": 2, "mat": 0.5,
             "custom": 1 if mode != "sql" else 0, "mark": 0.7, "iterate": 1.5 if mode == "it" else 0}
        if len(engines) > 1:
            w["xfer"] = 2
            w["process"] = 0.6
            w["flag_on_processed"] = 0.6
        g = Gen(rng, engines=engines, weights=w, max_ops=13 if big else 9, nleaves=(2, 3), flags_p=0.1 if len(engines) > 1 else 0.0,
                bounds=("exact", "loose", "zeromin", "unbounded", "minonly"), special_leaf_p=0.25, zero_col_p=0.15,
                redeclare_p=0.25)
        return {"config": swarm_config(rng), "ops": g.build()}

    def dn_keys(self, run):
        from .world import shape

        out = set()
        for e in run.pool:
            if e.evaluated and not e.alias and (e.rel.max_rows is not None or e.rel.min_rows > 0):
                out.add((shape(e.rel), e.rel.min_rows, e.rel.max_rows))
        return out


PROC_SITES = ("hook_before", "hook_after", "db_before", "db_mid", "db_after", "leaf_iter", "stream_row", "udf", "udf_stop", "udf_type")


class C07(Profile):
    prop = "C07"
    eval_stats = ('process_ops', 'evaluations')
    level = "fault_enumeration"
    claims = {k: "C07" for k in ("rows_mismatch", "mutated", "transfer_payload_on_input", "process_changed_signature",
                                 "process_incomplete", "hook_bad_arg", "hook_on_trivial", "hook_recall", "bad_payload",
                                 "exec_exception", "payload_not_cached", "iteration_not_repeatable")}
    fault_sites = PROC_SITES
    enumerate_faults = True
    track_payloads = True
    dn_rule = ("multi-engine histories with transfers, materializations (also directly after transfers) and chains with "
               "statically empty branches; process() issued repeatedly on shared subtrees; in the faulting batch a fault is "
               "placed at crossings of hook / DB / leaf sites (every crossing, up to 64 per scenario, in the thorough tier), "
               "followed by one fault-free retry; distinct = (library tree shape of a processed tree with >= 1 transfer, fault "
               "site, crossing number) - fault-free runs count with site 'none'")

    def claim(self, kind, entry, run, v):
        if kind == "exec_exception" and v["detail"].get("phase") != "process" and \
                not (entry is not None and entry.op["k"] == "process"):
            return None      # (an exception while executing the tree process() returned is a C07 matter too)
        if kind in ("rows_mismatch", "iteration_not_repeatable") and (entry is None or entry.op["k"] != "process"):
            return None
        return self.claims.get(kind)

    def gen(self, rng, tier):
        w = {**UNARY_W, "xfer": 5, "mat": 3, "chain": 1.5, "chain_empty": 1.2, "roundtrip_empty": 0.5, "roundtrip_mat": 0.3, "join": 0.6, "leaf": 1.5, "process": 5, "run": 1,
             "mark": 1.2, "flag_on_processed": 0.8, "custom": 0.6, "marker_tower": 1.0, "redeclared_twin": 0.6, "iterate": 0.7}
        return multi_gen(rng, tier, weights=w, flags_p=0.15, special_leaf_p=0.12, udf_p=0.06,
                         bounds=("exact", "loose", "zeromin", "unbounded"), redeclare_p=0.12)

    def dn_keys(self, run):
        from .world import shape

        out = set()
        faults = [(i, tuple(f)) for i, o in enumerate(run.sc["ops"]) for f in o.get("faults", [])] or [(None, ("none", 0))]
        for e in run.pool:
            if e.op["k"] == "process" and not e.alias and "T>" in shape(e.rel):
                for _, f in faults:
                    out.add((shape(e.rel), f[0], f[1]))
        return out


class C08(Profile):
    prop = "C08"
    claims = {k: "C08" for k in ("exec_exception", "unexpected_exception")}
    eval_new = True
    dn_rule = ("histories in the SQL engine, the iteration engine and across engines with maximal shape diversity; every "
               "accepted relation is compiled and run (through process() when needed); distinct = (phase reached, library "
               "tree shape) with >= 3 operation nodes")

    def gen(self, rng, tier):
        big = tier == "thorough"
        mode = rng.choice(["sql", "sql", "it", "multi", "it2"])
        if mode == "multi":
            return multi_gen(rng, tier, weights={**MULTI_W, "join": 2, "chain": 2}, flags_p=0.3, udf_p=0.12,
                             itonly_p=0.4 if rng.random() < 0.5 else 0.0)
        if mode == "it2":
            return multi_gen(rng, tier, weights={**MULTI_W, "join": 0.3, "chain": 2, "xfer": 5}, flags_p=0.2, udf_p=0.15,
                             engines=["it", "it2"])
        w = {**UNARY_W, "chain": 3, "join": 3, "leaf": 1.5, "mat": 0.3}
        g = Gen(rng, engines=[mode], weights=w, max_ops=14 if big else 9, nleaves=(2, 4), hidden_p=0.15,
                special_leaf_p=0.05, pipeline_p=0.3)
        return {"config": swarm_config(rng), "ops": g.build()}

    def dn_keys(self, run):
        return {s for s in run.shapes if sum(s.count(x) for x in ("Calculation", "Projection", "Selection", "Deduplication",
                                                               "Sort", "Slice", "Join", "Chain")) >= 3}


class C09(Profile):
    prop = "C09"
    eval_stats = ('fingerprints_checked', 'rebuilds', 'twice')
    claims = {k: "C09" for k in ("mutated", "unhashable", "rebuild_not_equal", "rebuild_hash_differs",
                                 "compile_not_repeatable", "execute_not_repeatable")}
    track_fingerprints = True
    eval_new = True
    fault_sites = ("leaf_iter", "hook_before", "hook_after", "db_before", "db_after", "udf")
    fault_fraction = 0.3

    def claim(self, kind, entry, run, v):
        if kind == "rows_mismatch":
            # "evaluation is side-effect free" includes evaluations that fail half-way: a wrong result that only exists
            # because an earlier evaluation in this history was interrupted by a fault belongs here; a wrong result
            # that the same history shows without any fault does not (it is C01 / C02 / C07 material).
            if run.shadow or not run.w.fault.total_fired:
                return None
            if run.nofault_variant_shows(kind, run.w.op_index):
                return None
            return "C09"
        if kind == "exec_exception":
            # a relation that has been evaluated successfully and now cannot be: the earlier evaluation left something
            # behind (unless a fault interrupted an evaluation in between, which is the case above)
            if entry is not None and getattr(entry, "eval_ok", False) and not run.w.fault.total_fired:
                return "C09"
            return None
        return self.claims.get(kind)
    dn_rule = ("long mixed histories of factory calls, executions, cursors, process(), diagnostics, rejected and faulted "
               "calls over one shared pool; after every step every earlier relation is re-fingerprinted; distinct = op-kind "
               "sequences of length >= 6 containing a payload attachment, a rejected call or a fault before the last check")

    def gen(self, rng, tier):
        big = tier == "thorough"
        w = {**UNARY_W, "xfer": 2, "mat": 1.5, "chain": 1.5, "join": 1, "leaf": 1, "process": 2, "run": 3, "rebuild": 3,
             "twice": 2, "ill": 2, "diag": 1, "cursor_open": 0.7, "pull": 1.5, "abandon": 0.3, "attach": 0.5, "mark": 0.8, "reuse_mat": 0.6, "flag_on_processed": 0.4, "twin": 0.8, "redeclared_twin": 0.5, "ephemeral": 0.6}
        return multi_gen(rng, tier, weights=w, flags_p=0.3, max_ops=30 if big else 14,
                         engines=rng.choice([["sql"], ["it"], ["sql", "it"], ["sql", "it", "it2"]]), named_mat=True,
                         redeclare_p=0.15, config_over={"eval_new": rng.random() < 0.67})

    def dn_keys(self, run):
        kinds = [o["k"] for o in run.sc["ops"]]
        if len(kinds) >= 6 and (run.probes.get("mat_payload_attached") or run.probes.get("ill_rejected")
                                or run.w.fault.total_fired or run.stats.get("alias:allowed-error")):
            return {tuple(kinds)}
        return set()


class C10(Profile):
    prop = "C10"
    eval_stats = ('evaluations', 'process_ops', 'payload_nodes_checked')
    level = "fault_enumeration"
    claims = {k: "C10" for k in ("payload_overwritten", "attach_not_rejected", "attach_wrong_exception", "attach_rejected",
                                 "attach_lost", "reevaluated", "hook_recall", "rows_mismatch", "payload_not_cached", "mutated",
                                 "conform_lost_payload", "materialization_elided")}
    track_payloads = True
    fault_sites = PROC_SITES
    enumerate_faults = True
    dn_rule = ("histories of attach_payload / iteration execute / process over trees sharing materialization nodes, with crash "
               "points at hook / DB / leaf crossings and one retry; distinct = (op-kind sequence, number of materializations, "
               "fault placement) with >= 1 shared materialization node")

    def claim(self, kind, entry, run, v):
        if kind == "rows_mismatch":
            from lsst.daf.relation import Materialization
            from .world import walk

            if entry is None or not any(isinstance(n, Materialization) and n.payload is not None for n in walk(entry.rel)):
                return None
        return self.claims.get(kind)

    def gen(self, rng, tier):
        w = {"calc": 2, "proj": 2, "sel": 2, "dedup": 1, "sort": 1.5, "slice": 1.5, "xfer": 3, "mat": 5, "chain": 2,
             "chain_empty": 1.2, "roundtrip_empty": 0.4, "roundtrip_mat": 0.5, "reuse_mat": 0.8, "flag_on_processed": 0.4, "marker_tower": 0.6, "redeclared_twin": 0.5, "rawtree": 0.8, "custom": 1.0, "mark": 1.5, "leaf": 1, "process": 5, "run": 4, "attach": 4, "iterate": 2, "cursor_open": 0.5, "pull": 1}
        return multi_gen(rng, tier, weights=w, flags_p=0.1, engines=rng.choice([["it"], ["sql", "it"], ["sql", "it", "it2"]]),
                         max_ops=18 if tier == "thorough" else 12, udf_p=0.1, redeclare_p=0.1, special_leaf_p=0.08, pin_p=0.4)

    def dn_keys(self, run):
        nm = len(run.mat_entries)
        if not nm:
            return set()
        faults = tuple((i, tuple(f)) for i, o in enumerate(run.sc["ops"]) for f in o.get("faults", []))
        return {(tuple(o["k"] for o in run.sc["ops"]), nm, faults)}


class C11(Profile):
    prop = "C11"
    claims = {k: "C11" for k in ("rows_mismatch", "order_loss_missing", "buried_sort")}
    eval_new = True
    both_orders = True
    dn_rule = ("SQL histories dense in (total and non-total) sorts and slices in every position relative to projection, "
               "deduplication, selection, calculation, with join / chain / materialise applied on sorted operands; run under both "
               "physical scan orders; distinct = op-kind pattern of a history containing a total sort whose result was compared "
               "as an ordered list")

    def __init__(self):
        from . import oracles

        self.new_entry_hooks = (oracles.no_buried_sort,)

    def claim(self, kind, entry, run, v):
        if kind == "rows_mismatch" and (entry is None or not _has(entry.mv.hist, "sort")):
            return None
        return self.claims.get(kind)

    def gen(self, rng, tier):
        big = tier == "thorough"
        g = Gen(rng, engines=["sql"],
                weights={"calc": 1.5, "proj": 3, "sel": 1.5, "dedup": 2.5, "sort": 5, "slice": 5, "chain": 1.5, "join": 1.5,
                         "mat": 1.2, "leaf": 1},
                max_ops=13 if big else 9, nleaves=(1, 3), total_sort_p=0.7, allow_pending_binary=0.5, adjacent_p=0.25,
                pipeline_p=0.4, hidden_p=0.3, max_rows=7)
        return {"config": swarm_config(rng), "ops": g.build()}

    def dn_keys(self, run):
        out = set()
        for e in run.pool:
            if e.evaluated and not e.alias and e.mv.strength() == "list" and _has(e.mv.hist, "sort"):
                from .model import hist_shape

                out.add(hist_shape(e.mv.hist))
        return out


class C14(Profile):
    prop = "C14"
    eval_stats = ('trees_walked',)
    claims = {k: "C14" for k in ("malformed_tree", "noop_not_identity", "missing_rejection")}
    structural_only = True

    def claim(self, kind, entry, run, v):
        if kind == "missing_rejection" and "engine" not in v["detail"].get("reason", ""):
            return None
        return self.claims.get(kind)
    dn_rule = ("histories over two or three engines with every preferred-engine option and an engine-restricted column "
               "function; every tree returned by a factory call or by process() is walked (target/lhs/rhs/skip_to) against the "
               "node-local invariants; distinct = library tree shapes spanning >= 2 engines")

    def __init__(self):
        from . import oracles

        self.new_entry_hooks = (oracles.wellformed,)

    def gen(self, rng, tier):
        w = {**MULTI_W, "process": 1.5, "join": 2, "ill": 2}
        return multi_gen(rng, tier, weights=w, flags_p=0.6, udf_p=0.15, itonly_p=0.5, nonkey_join_p=0.3,
                         engines=["sql", "it", "it2"] if rng.random() < 0.6 else ["sql", "it"])

    def dn_keys(self, run):
        return {k for k in run.dn if k and k[0] == "wf"}


class C15(Profile):
    prop = "C15"
    eval_stats = ('evaluations', 'locked_nodes_checked')
    claims = {k: "C15" for k in ("locked_rewritten", "locked_dropped", "redundant_materialization", "rows_mismatch",
                                 "engine_mismatch")}
    eval_new = True
    dn_rule = ("chains of transfers among up to three engines interleaved with operations and materializations (processed at "
               "random points so that payloads are cached on locked nodes), then factory calls with every preferred-engine "
               "option on top; distinct = (library tree shape, call kind, flags) where an input contains a locked non-leaf node")

    def __init__(self):
        from . import oracles

        self.new_entry_hooks = (oracles.locked_identity,)

    def claim(self, kind, entry, run, v):
        if kind in ("rows_mismatch", "engine_mismatch"):
            # round trips / transfer simplification only
            if entry is None or entry.op["k"] not in ("xfer", "mat", "conform_inner"):
                return None
        return self.claims.get(kind)

    def gen(self, rng, tier):
        w = {**UNARY_W, "xfer": 7, "mat": 4, "chain": 1, "join": 1, "leaf": 1, "process": 2, "conform_inner": 1.5, "roundtrip_mat": 0.5, "mark": 1.5, "marker_tower": 0.6, "twin": 1.0, "flag_on_processed": 0.6}
        return multi_gen(rng, tier, weights=w, flags_p=0.55,
                         engines=["sql", "it", "it2"] if rng.random() < 0.6 else ["sql", "it"])

    def dn_keys(self, run):
        return {k for k in run.dn if k and k[0] == "locked"}


class C16(Profile):
    prop = "C16"
    eval_stats = ('diag:none', 'diag:truth', 'diag:real')
    claims = {k: "C16" for k in ("doomed_nonempty", "diag_inexact", "doomed_no_message", "diag_exception")}
    fault_sites = ("db_before", "db_after", "leaf_iter")
    fault_fraction = 0.2
    recover_kinds = ()
    dn_rule = ("trees of both engines with doomed / identity leaves, trivially false predicates, zero-limit slices, chains with an "
               "empty branch; Diagnostics.run without executor, with a truthful executor (tree interpreter) and with a real one "
               "(process + run, may fault); distinct = (executor mode, library tree shape) for trees containing >= 1 operation "
               "that can remove all rows")

    def gen(self, rng, tier):
        big = tier == "thorough"
        mode = rng.choice(["sql", "it", "multi"])
        engines = {"sql": ["sql"], "it": ["it"], "multi": ["sql", "it"]}[mode]
        w = {"calc": 1, "proj": 1.5, "sel": 4, "dedup": 1, "sort": 1, "slice": 3, "chain": 3, "chain_empty": 1.5,
             "join": 3 if mode != "it" else 0, "leaf": 2, "diag": 6, "mark": 0.8, "custom": 1.5 if mode != "sql" else 0}
        if mode == "multi":
            w["xfer"] = 2
            w["mat"] = 0.7
            w["process"] = 1
            w["flag_on_processed"] = 0.8
        g = Gen(rng, engines=engines, weights=w, max_ops=14 if big else 10, nleaves=(2, 3), special_leaf_p=0.3,
                flags_p=0.1 if mode == "multi" else 0.0,
                bounds=("exact", "loose", "zeromin", "unbounded"), redeclare_p=0.25, adjacent_p=0.3)
        return {"config": swarm_config(rng), "ops": g.build()}

    def dn_keys(self, run):
        from .world import shape

        out = set()
        for o in run.sc["ops"]:
            if o["k"] == "diag" and run.pool:
                e = run.pool[o["t"] % len(run.pool)]
                s = shape(e.rel)
                if any(x in s for x in ("Selection", "Slice", "Join")):
                    out.add((o.get("ex"), s))
        return out


class C17(Profile):
    prop = "C17"
    eval_stats = ('conform_checked', 'raw_conformed', 'selects_checked')
    claims = {k: "C17" for k in ("factory_not_conformed", "conform_not_idempotent", "select_incoherent", "conform_exception",
                                 "conform_lost_payload",
                                 "rows_mismatch", "columns_mismatch", "keys_mismatch")}
    both_orders = True
    dn_rule = ("SQL trees built through the API, raw trees assembled bottom-up with the dataclass constructors and conformed, "
               "and trees returned by process(); distinct = library tree shapes (Select nesting included) that were checked")

    def __init__(self):
        from . import oracles

        self.new_entry_hooks = (oracles.conformed,)

    def claim(self, kind, entry, run, v):
        if kind in ("rows_mismatch", "columns_mismatch", "keys_mismatch") and \
                (entry is None or entry.op["k"] not in ("rawtree", "conform_inner")):
            return None
        return self.claims.get(kind)

    def gen(self, rng, tier):
        big = tier == "thorough"
        if rng.random() < 0.25:
            w = {**MULTI_W, "process": 3, "rawtree": 2, "conform_inner": 3, "mat": 3}
            return multi_gen(rng, tier, weights=w, flags_p=0.3, engines=["sql", "it"])
        g = Gen(rng, engines=["sql"], weights={**UNARY_W, "chain": 3.5, "join": 2, "leaf": 1, "rawtree": 3, "conform_inner": 1, "ephemeral": 1.0,
                                               "mat": 0.7, "process": 0.7},
                max_ops=14 if big else 10, nleaves=(1, 3), adjacent_p=0.35, pipeline_p=0.4, hidden_p=0.25, max_rows=7)
        return {"config": swarm_config(rng), "ops": g.build()}

    def dn_keys(self, run):
        return {k for k in run.dn if k and k[0] == "selects"}


class C18(Profile):
    prop = "C18"
    eval_stats = ('iterate_ops', 'full_iterations')
    level = "fault_enumeration"
    claims = {k: "C18" for k in ("eager_leaf_iteration", "multiple_starts", "iteration_not_repeatable", "rows_mismatch",
                                 "no_recovery", "payload_not_cached", "mutated")}
    track_payloads = True
    fault_sites = ("leaf_iter", "udf", "udf_stop", "udf_type")
    enumerate_faults = True
    recover_kinds = ("iterate",)
    dn_rule = ("iteration-engine trees over instrumented lazy leaves (a leaf may occur several times): lazy-only trees and trees "
               "mixing in sort / deduplication / materialization; results iterated 1-3 times, partially abandoned, under upstream "
               "faults at every row boundary; distinct = (lazy leaf occurrences, eager leaf occurrences, #iterations, abandon "
               "point) with >= 2 iterations")

    def claim(self, kind, entry, run, v):
        if kind == "rows_mismatch" and run.sc["ops"][v["op_index"]]["k"] != "iterate":
            return None
        return self.claims.get(kind)

    def gen(self, rng, tier):
        big = tier == "thorough"
        lazy_only = rng.random() < 0.5
        w = {"calc": 3, "proj": 3, "sel": 3, "slice": 3, "chain": 3, "leaf": 1, "iterate": 5, "cursor_open": 1, "pull": 2,
             "abandon": 0.5}
        if not lazy_only:
            w.update({"sort": 2, "dedup": 2, "mat": 2, "xfer": 0.7, "reuse_mat": 0.8, "run": 1, "custom": 1})
        g = Gen(rng, engines=["it", "it2"] if rng.random() < 0.3 else ["it"], weights=w, max_ops=14 if big else 10,
                nleaves=(1, 3), leaf_payloads=("simrows", "simrows", "simrows", "simmat", "seq", "map"), udf_p=0.05)
        return {"config": swarm_config(rng), "ops": g.build()}

    def dn_keys(self, run):
        return {k for k in run.dn if k and k[0] == "iter" and k[3] >= 2}


class C20(Profile):
    prop = "C20"
    eval_stats = ('ill:total',)
    claims = {k: "C20" for k in ("missing_rejection", "wrong_exception_class", "mutated")}
    track_fingerprints = True
    dn_rule = ("for calls the generator believes acceptable, single ill-typing edits (missing column in predicate / sort term / "
               "projection / calculation / join predicate, duplicate calculated tag, chain operands with different columns or "
               "engines, engine-unsupported expression, negative / reversed / stepped / non-slice index) issued at any depth of "
               "multi-engine histories with every flag combination; the model confirms ill-formedness before the call; distinct = "
               "(edit kind, operation, route root / backtracked / transferred / sql-conformed)")

    def gen(self, rng, tier):
        w = {**UNARY_W, "xfer": 2.5, "mat": 0.8, "chain": 1, "join": 1, "leaf": 1, "ill": 9, "process": 0.5, "custom": 1, "mark": 0.4}
        engines = rng.choice([["sql"], ["it"], ["sql", "it"], ["sql", "it", "it2"]])
        return multi_gen(rng, tier, weights=w, flags_p=0.3, engines=engines, udf_p=0.05)

    def dn_keys(self, run):
        return set(run.ill_routes)


PROFILES = {c.prop: c() for c in (C01, C02, C03, C04, C05, C06, C07, C08, C09, C10, C11, C14, C15, C16, C17, C18, C20)}
