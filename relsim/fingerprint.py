"""Deep structural snapshots of relation trees (DESIGN §5.4), payload-masked:
the None -> value transition of marker payloads is ignored, everything else a
caller can observe about an earlier relation is included.
"""
from __future__ import annotations

import hashlib

from lsst.daf.relation import (
    BinaryOperationRelation,
    LeafRelation,
    MarkerRelation,
    UnaryOperationRelation,
)


def _h(s: str) -> str:
    return hashlib.sha1(s.encode()).hexdigest()[:10]


def node_fp(world, r):
    cols = ",".join(sorted(c.qualified_name for c in r.columns))
    base = [type(r).__name__, r.engine.name, cols, r.min_rows, r.max_rows, r.is_locked, r.is_trivial, r.is_join_identity]
    if isinstance(r, UnaryOperationRelation):
        op = r.operation
        base += [type(op).__name__, str(op), ",".join(sorted(c.qualified_name for c in op.columns_required)),
                 op.is_empty_invariant, op.is_count_invariant, op.is_order_dependent, op.is_count_dependent]
    elif isinstance(r, BinaryOperationRelation):
        op = r.operation
        base += [type(op).__name__, str(op)]
        cc = getattr(op, "min_columns", None)
        if cc is not None:
            base.append(",".join(sorted(c.qualified_name for c in cc)))
            base.append(str(op.predicate))
    elif isinstance(r, LeafRelation):
        base += [r.name, repr(r.parameters), tuple(r.messages), world.token(r.payload)]
    elif isinstance(r, MarkerRelation):
        base += [getattr(r, "name", None)]
        for slot in ("sort", "projection", "deduplication", "slice", "is_compound"):
            if hasattr(r, slot):
                base.append(str(getattr(r, slot)))
    return tuple(base)


def fingerprint(world, rel) -> dict:
    """Dictionary of named facets; all values are plain comparable data."""
    nodes = []
    stack = [rel]
    seen = set()
    while stack:
        r = stack.pop()
        if id(r) in seen:
            nodes.append(("shared",))
            continue
        seen.add(id(r))
        nodes.append(node_fp(world, r))
        if isinstance(r, UnaryOperationRelation):
            stack.append(r.target)
        elif isinstance(r, BinaryOperationRelation):
            stack.extend([r.rhs, r.lhs])
        elif isinstance(r, MarkerRelation):
            stack.append(r.target)
            if hasattr(r, "skip_to"):
                stack.append(r.skip_to)
    fp = {
        "nodes": _h(repr(nodes)),
        "str": _h(str(rel)),
        "repr": _h(repr(rel)),
        "columns": ",".join(sorted(c.qualified_name for c in rel.columns)),
        "bounds": (rel.min_rows, rel.max_rows),
        "eq_self": rel == rel,
    }
    fp["hash"] = hash(rel)          # raises TypeError if unhashable (reported by the caller)
    return fp
