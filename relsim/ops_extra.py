"""Further scenario operations (process, diagnostics, attach_payload, raw trees,
ill-formed requests, rebuild, iterate, names) and their oracles.  Mixed into
execu.Run."""
from __future__ import annotations

from collections import Counter

from lsst.daf.relation import (
    BinaryOperationRelation,
    Calculation,
    Chain,
    ColumnError,
    Deduplication,
    Diagnostics,
    EngineError,
    Join,
    LeafRelation,
    MarkerRelation,
    Materialization,
    Projection,
    RelationalAlgebraError,
    Selection,
    Slice,
    Sort,
    SortTerm,
    Transfer,
    UnaryOperationRelation,
    iteration,
    sql,
)
from lsst.daf.relation.iteration import RowSequence

from . import model as M
from .monitors import MON
from .exprs import expr_cols, pred_cols
from .interp import InterpError, interp
from .world import SimIOError, SimMatRows, SimRows, children, needs_processing, walk, walk_live


def live_leaf_ids(rel):
    out = set()
    for n in walk_live(rel):
        # a marker may legitimately have been given a leaf's own (lazy) payload, e.g. when
        # Processor simplifies a materialization down to a leaf
        if isinstance(n.payload, SimRows):
            out.add(n.payload.lid)
    return out


def leaf_occurrences(rel, eager=False, lazy=None, eag=None):
    """Counters of SimRows leaf occurrences reached lazily / beneath an eager node,
    following what iteration.Engine.execute documents."""
    if lazy is None:
        lazy, eag = Counter(), Counter()
    if rel.max_rows == 0 or rel.is_join_identity:
        return lazy, eag
    p = rel.payload
    if p is not None:
        if isinstance(p, SimRows):
            (eag if eager else lazy)[p.lid] += 1
        return lazy, eag
    if isinstance(rel, UnaryOperationRelation):
        e2 = eager or isinstance(rel.operation, (Sort, Deduplication))
        leaf_occurrences(rel.target, e2, lazy, eag)
    elif isinstance(rel, BinaryOperationRelation):
        leaf_occurrences(rel.lhs, eager, lazy, eag)
        leaf_occurrences(rel.rhs, eager, lazy, eag)
    elif isinstance(rel, Materialization):
        t = rel.target
        while isinstance(t, MarkerRelation) and t.payload is None and t.max_rows != 0 and not t.is_join_identity:
            t = t.target
        # materialized() of a payload that already is a sized in-memory iterable is that very object: nothing is read
        leaf_occurrences(rel.target, eager if isinstance(t.payload, SimMatRows) else True, lazy, eag)
    elif isinstance(rel, MarkerRelation):
        leaf_occurrences(rel.target, eager, lazy, eag)
    return lazy, eag


def uncached_iteration_mats(rel):
    """Live-reachable iteration-engine Materialization nodes without payload that execute() will evaluate."""
    out = []
    stack = [rel]
    seen = set()
    while stack:
        r = stack.pop()
        if id(r) in seen:
            continue
        seen.add(id(r))
        if r.payload is not None or r.max_rows == 0 or r.is_join_identity:
            continue
        if isinstance(r, Materialization) and isinstance(r.engine, iteration.Engine):
            out.append(r)
        stack.extend(children(r))
    return out


def process_reachable_mats(rel):
    """Materialization nodes without payload that Processor._process_recursive will reach (it stops at nodes
    that already carry a payload and does not descend below a statically trivial Transfer)."""
    out = []
    stack = [rel]
    seen = set()
    while stack:
        r = stack.pop()
        if id(r) in seen:
            continue
        seen.add(id(r))
        if r.payload is not None:
            continue
        if isinstance(r, Transfer) and (r.is_join_identity or r.max_rows == 0):
            continue
        if isinstance(r, Materialization):
            out.append(r)
        stack.extend(children(r))
    return out


def build_expr(e, tags):
    from .execu import build_expr as b

    return b(e, tags)


def build_pred(p, tags):
    from .execu import build_pred as b

    return b(p, tags)


class ExtraOps:
    def check_cached(self, ent, mats):
        for m in mats:
            if m.payload is None:
                self.violate("payload_not_cached", {"materialization": m.name,
                                                    "why": "execute() evaluated the upstream of this node but did not cache the rows"}, entry=ent)
                return

    # ---------------------------------------------------------------- joins
    def _jmodel(self, l, r, p, op, rel):
        eng = rel.engine.name
        if eng not in (l.mv.engine, r.mv.engine):
            from .execu import Entry

            self.violate("engine_mismatch", {"expected": [l.mv.engine, r.mv.engine], "got": eng, "op": op},
                         entry=Entry(rel, l.mv, op, [l, r]))
        if l.mv.engine != r.mv.engine and op.get("bt") is False and op.get("tr") and not op.get("direct") \
                and not (l.rel.is_join_identity or r.rel.is_join_identity):
            # backtracking was ruled out by the caller: the only legal result is the join in the other operand's
            # engine (over a transfer of this operand, which may legitimately simplify away a round trip)
            from .execu import Entry

            if eng != r.mv.engine:
                self.violate("transfer_flag_ignored", {"op": op, "result_engine": eng, "expected_engine": r.mv.engine,
                                                       "returned": str(rel)[:200]},
                             entry=Entry(rel, l.mv, op, [l, r]))
        lv = l.mv
        return M.m_join(lv, r.mv, p, engine=eng)

    # ---------------------------------------------------------- leaf ledger
    def leaf_starts(self):
        return {lid: info["payload"].starts for lid, info in self.w.leaves.items()
                if isinstance(info.get("payload"), SimRows)}

    def check_hidden_leaves(self, ent, before, allowed):
        """C10: no leaf hidden beneath an attached payload is iterated again."""
        after = self.leaf_starts()
        for lid, n in after.items():
            if n > before.get(lid, 0) and lid not in allowed:
                self.violate("reevaluated", {"leaf": lid, "what": "leaf beneath an attached payload was iterated again"},
                             entry=ent)

    # ---------------------------------------------------------------- process
    def snapshot_markers(self, rel):
        out = []
        for n in walk(rel):
            if isinstance(n, (Transfer, Materialization)):
                out.append((n, type(n).__name__, getattr(n, "name", None), self.w.token(n.payload)))
        return out

    def op_process(self, op):
        from .execu import Entry, is_injected
        from .fingerprint import fingerprint

        t = self.ref(op["t"])
        if t is None:
            return
        w = self.w
        rel = t.rel
        before_markers = self.snapshot_markers(rel)
        mat_before = {name: tok for _, kind, name, tok in before_markers if kind == "Materialization"}
        try:
            fp0 = fingerprint(w, rel)
        except Exception:
            fp0 = None
        ncalls = len(w.processor.calls)
        allowed = live_leaf_ids(rel)
        starts0 = self.leaf_starts()
        expected_mats = process_reachable_mats(rel)
        self.stats["process_ops"] += 1
        out = None
        err = None
        try:
            out = w.processor.process(rel)
        except Exception as e:  # noqa
            err = e
        calls = w.processor.calls[ncalls:]
        self.check_hook_calls(t, calls, mat_before)
        self.check_hidden_leaves(t, starts0, allowed)
        # input tree: only materializations gain payloads; transfers never do
        for n, kind, name, tok in before_markers:
            now = w.token(n.payload)
            if kind == "Transfer" and now != tok:
                self.violate("transfer_payload_on_input", {"node": str(n)[:200]}, entry=t)
            if kind == "Materialization" and tok is None and now is not None:
                self.probes["mat_payload_attached"] += 1
                self.check_attached_payload(t, n)
        if fp0 is not None:
            try:
                fp1 = fingerprint(w, rel)
                if fp1 != fp0:
                    self.violate("mutated", {"what": "process() changed its input tree",
                                             "changed": [k for k in fp1 if fp1[k] != fp0[k]]}, entry=t)
            except Exception:
                pass
        if err is not None:
            if w.fault.fired and is_injected(err, w.fault.fired):
                self.stats["fault_surfaced"] += 1
                self.logev(w.op_index, "process", "fault-surfaced")
            else:
                self.on_exec_exception(t, err)
            return self.alias(op, t, "process-failed")
        if w.fault.fired:
            self.stats["fault_swallowed_or_late"] += 1
        # every materialization process() walked through must now hold its payload (else it is evaluated again next time)
        for m in expected_mats:
            if m.payload is None:
                self.violate("payload_not_cached", {"materialization": m.name,
                                                    "why": "process() succeeded but left this materialization without a payload"},
                             entry=t)
                break
        if sorted(c.qualified_name for c in out.columns) != sorted(c.qualified_name for c in rel.columns) or \
                out.engine is not rel.engine:
            self.violate("process_changed_signature", {"in": str(rel)[:150], "out": str(out)[:150]}, entry=t)
        if needs_processing(out):
            self.violate("process_incomplete", {"out": str(out)[:200]}, entry=t)
        ent = Entry(out, t.mv, op, [t])
        self.pool.append(ent)
        self.logev(w.op_index, "process", "ok", str(out))
        for hook in self.profile.new_entry_hooks:
            if getattr(hook, "on_process", False):
                hook(self, ent, op, [t])
        # executing the processed tree in its final engine == model
        self.eval_and_check(ent, op)

    def check_hook_calls(self, ent, calls, mat_before):
        for c in calls:
            rel = c["rel"]
            if rel.max_rows == 0 or rel.is_join_identity:
                self.violate("hook_on_trivial", {"hook": c["kind"], "arg": c["str"][:200]}, entry=ent)
            for n in walk_live(rel):
                if isinstance(n, Transfer) and n.payload is None:
                    self.violate("hook_bad_arg", {"hook": c["kind"], "arg": c["str"][:200],
                                                  "why": "payload-less transfer inside hook argument"}, entry=ent)
                    break
                if isinstance(n, Materialization) and n.payload is None and isinstance(n.engine, sql.Engine):
                    self.violate("hook_bad_arg", {"hook": c["kind"], "arg": c["str"][:200],
                                                  "why": "payload-less SQL materialization inside hook argument"}, entry=ent)
                    break
            if c["kind"] == "transfer" and c.get("materialize_as") is not None:
                # fusion is only legitimate for a transfer *directly* upstream of that materialization
                node = next((n for n in walk(ent.rel) if isinstance(n, Materialization) and n.name == c["materialize_as"]), None)
                if node is not None:
                    cur = node.target
                    while isinstance(cur, MarkerRelation) and not isinstance(cur, (Transfer, Materialization)):
                        cur = cur.target
                    if not isinstance(cur, Transfer):
                        self.violate("hook_bad_arg", {"hook": "transfer", "materialize_as": c["materialize_as"],
                                                      "why": "transfer told to materialize although operations lie between it "
                                                             "and the materialization"}, entry=ent)
            name = c.get("name") or c.get("materialize_as")
            if name is not None:
                if mat_before.get(name) is not None:
                    self.violate("hook_recall", {"hook": c["kind"], "name": name,
                                                 "why": "hook invoked for a materialization that already had a payload"}, entry=ent)
                if c.get("completed"):
                    self.mat_evals[name] += 1
                    if self.mat_evals[name] > 1:
                        self.violate("reevaluated", {"name": name, "completed_evaluations": self.mat_evals[name]}, entry=ent)

    def payload_rows(self, node):
        """Rows held by a payload attached to a marker node (keyed by name)."""
        p = node.payload
        self.w.fault.suspended = True
        try:
            return self._payload_rows(node, p)
        finally:
            self.w.fault.suspended = False

    def _payload_rows(self, node, p):
        if isinstance(p, sql.Payload):

            cols = sorted(node.columns, key=lambda t: t.qualified_name)
            ex = self.w.sql.select_items([(t, p.columns_available[t]) for t in cols], p.from_clause)
            for wc in p.where:
                ex = ex.where(wc)
            rows = self.w.conn.execute(ex).fetchall()
            names = [t.qualified_name for t in cols]
            return [dict(zip(names, r)) for r in rows] if names else [{} for _ in rows]
        return [{t.qualified_name: v for t, v in r.items()} for r in p]

    def check_attached_payload(self, ent, node):
        """A payload attached to an input materialization == complete rows of that node."""
        me = self.mat_entries.get(node.name)
        if me is None:
            return
        try:
            rows = self.payload_rows(node)
        except Exception as e:  # noqa
            self.violate("bad_payload", {"name": node.name, "why": "attached payload cannot be read"}, entry=ent, exc=e)
            return
        st, problem = M.compare(me.mv, rows)
        self.stats["payload_cmp:" + st] += 1
        if problem is not None:
            self.violate("bad_payload", {"name": node.name, **problem}, entry=me)

    # ------------------------------------------------------------ diagnostics
    def op_diag(self, op):
        from .known import _hidden_join_collision

        t = self.ref(op["t"])
        if t is None or _hidden_join_collision(t.rel):
            return
        w = self.w
        mode = op.get("ex", "none")
        if mode == "real" and not t.all_bag_det:
            mode = "truth"      # a real executor is only comparable when emptiness does not depend on physical order
        memo = {}
        try:
            truth = interp(w, t.rel, memo)
        except (InterpError, KeyError):
            return          # not a tree the interpreter can give a meaning to (reported elsewhere)
        executor = None
        if mode == "truth":
            executor = lambda r: len(interp(w, r, memo)) > 0  # noqa
        elif mode == "real":
            def executor(r):
                from .execu import Entry

                rows, _ = self.evaluate(Entry(r, t.mv, op, []))
                return len(rows) > 0
        raised = []
        if executor is not None and op.get("fail_at") is not None:
            # the second party fails: the executor raises on its k-th call; Diagnostics must let that reach the caller
            # (who retries), not turn it into a verdict
            inner, calls = executor, [0]

            def executor(r):  # noqa: F811
                calls[0] += 1
                if calls[0] == op["fail_at"] + 1:
                    raised.append(calls[0])
                    raise SimIOError("executor", calls[0])
                return inner(r)
        try:
            d = Diagnostics.run(t.rel, executor)
        except Exception as e:  # noqa
            from .execu import is_injected

            if raised and isinstance(e, SimIOError):
                self.stats["executor_fault_surfaced"] += 1
                try:
                    d = Diagnostics.run(t.rel, executor)        # the retry (the executor fails only once)
                except Exception as e2:  # noqa
                    self.violate("diag_exception", {"mode": mode, "phase": "retry after executor failure"}, entry=t, exc=e2)
                    return
            elif w.fault.fired and is_injected(e, w.fault.fired):
                self.stats["fault_surfaced"] += 1
                return
            elif mode == "real":
                # the executor (process + run) may hit an unrelated execution defect
                self.on_exec_exception(t, e)
                return
            else:
                self.violate("diag_exception", {"mode": mode}, entry=t, exc=e)
                return
        else:
            if raised:
                self.violate("diag_inexact", {"mode": mode, "what": "an exception raised by the executor was swallowed",
                                              "verdict_doomed": d.is_doomed}, entry=t)
                return
        self.stats["diag:" + mode] += 1
        if mode == "real" and d.is_doomed and not w.fault.fired:
            # what the engines actually return for this very tree (cached payloads included) must be empty too
            try:
                from .execu import Entry

                real_rows, _ = self.evaluate(Entry(t.rel, t.mv, op, []))
            except Exception:  # noqa  (execution defects are other properties' business)
                real_rows = []
            if real_rows:
                self.violate("doomed_nonempty", {"mode": mode, "rows_returned_by_the_engines": len(real_rows),
                                                 "messages": d.messages[:3]}, entry=t)
                return
        empty = len(truth) == 0
        if d.is_doomed and empty and not w.fault.fired and t.mv is not None \
                and t.mv.strength() in ("list", "bag", "count+subbag") and len(t.mv.rows) > 0:
            # the tree itself is empty, but the sequence of calls that built it is not (history model, independent of the
            # library's tree): the verdict dooms the relation the user asked for
            self.violate("doomed_nonempty", {"mode": mode, "rows_by_history_model": len(t.mv.rows),
                                             "messages": d.messages[:3]}, entry=t)
            return
        if d.is_doomed and not empty:
            self.violate("doomed_nonempty", {"mode": mode, "rows": len(truth), "messages": d.messages[:3]}, entry=t)
        if mode == "truth" and empty and not d.is_doomed:
            self.violate("diag_inexact", {"mode": mode, "what": "empty relation not reported doomed"}, entry=t)
        if d.is_doomed and not d.messages:
            self.violate("doomed_no_message", {"mode": mode}, entry=t)
        if d.is_doomed:
            self.probes["doomed_verdicts"] += 1
        self.logev(w.op_index, "diag", mode, d.is_doomed, len(d.messages))

    # ---------------------------------------------------------------- attach
    def op_attach(self, op):
        t = self.ref(op["t"])
        if t is None:
            return
        w = self.w
        rel = t.rel
        which = op.get("node", 0)
        nodes = list(walk(rel))
        node = nodes[which % len(nodes)]
        before = w.token(node.payload)
        is_marker = isinstance(node, MarkerRelation)
        if is_marker and node.payload is None:
            # legitimate first attachment: only do it with a *correct* payload on an
            # iteration-engine materialization whose rows the model knows exactly
            me = self.mat_entries.get(getattr(node, "name", None))
            if not (isinstance(node, Materialization) and isinstance(node.engine, iteration.Engine) and me is not None
                    and me.mv.strength() == "list"):
                return
            tags = w.tags
            payload = RowSequence([{tags[c]: v for c, v in r.items()} for r in me.mv.rows])
            try:
                node.attach_payload(payload)
            except Exception as e:  # noqa
                self.violate("attach_rejected", {"node": str(node)[:150]}, entry=t, exc=e)
                return
            if node.payload is not payload:
                self.violate("attach_lost", {"node": str(node)[:150]}, entry=t)
            self.probes["attach_first"] += 1
            self.logev(w.op_index, "attach", "first")
            return
        try:
            node.attach_payload(RowSequence([]))
        except TypeError:
            self.probes["attach_rejected_ok"] += 1
        except Exception as e:  # noqa
            self.violate("attach_wrong_exception", {"node": str(node)[:150]}, entry=t, exc=e)
        else:
            self.violate("attach_not_rejected", {"node": str(node)[:150], "marker": is_marker}, entry=t)
        if w.token(node.payload) != before:
            self.violate("payload_overwritten", {"node": str(node)[:150], "via": "attach_payload"}, entry=t)
        # every *other* relation type rejects attachment, whatever its payload is (a leaf
        # without payload included): sweep the non-marker nodes of the tree as well
        swept = 0
        for other in nodes:
            if other is node or isinstance(other, MarkerRelation):
                continue
            b = w.token(other.payload)
            try:
                other.attach_payload(RowSequence([]))
            except TypeError:
                swept += 1
            except Exception as e:  # noqa
                self.violate("attach_wrong_exception", {"node": str(other)[:150]}, entry=t, exc=e)
            else:
                self.violate("attach_not_rejected", {"node": str(other)[:150], "marker": False}, entry=t)
            if w.token(other.payload) != b:
                self.violate("payload_overwritten", {"node": str(other)[:150], "via": "attach_payload"}, entry=t)
        self.probes["attach_rejected_ok"] += swept
        self.logev(w.op_index, "attach", "second", swept)

    # --------------------------------------------------------------- raw trees
    def build_raw(self, ent, memo):
        """Assemble the entry's history bottom-up with the dataclass constructors
        (no engine help, no Select markers).  None if not expressible."""
        k = id(ent)
        if k in memo:
            return memo[k]
        op = ent.op
        kind = op["k"]
        tags = self.w.tags
        raw = None
        if ent.alias:
            raw = self.build_raw(ent.parents[0], memo)
        elif kind == "leaf":
            raw = ent.rel
            while not isinstance(raw, LeafRelation):
                raw = raw.target
        elif kind in ("calc", "proj", "sel", "dedup", "sort", "slice"):
            if op.get("pe") is not None:
                return None
            tgt = self.build_raw(ent.parents[0], memo)
            if tgt is None:
                return None
            if kind == "calc":
                o = Calculation(tags[op["tag"]], build_expr(op["e"], tags))
            elif kind == "proj":
                o = Projection(frozenset(tags[c] for c in op["cols"]))      # (an identity projection is a valid raw node)
            elif kind == "sel":
                o = Selection(build_pred(op["p"], tags))
                if o.predicate.as_trivial() is True:
                    o = None
            elif kind == "dedup":
                o = Deduplication()
            elif kind == "sort":
                o = Sort(tuple(SortTerm(build_expr(e, tags), bool(a)) for e, a in op["terms"])) if op["terms"] else None
            else:
                o = Slice(op["start"], op["stop"]) if (op["start"] or op["stop"] is not None) else None
            raw = tgt if o is None else UnaryOperationRelation(operation=o, target=tgt, columns=o.applied_columns(tgt))
        elif kind in ("mat", "mark"):
            # hand-assembled markers (C17: raw trees whose marker targets are not conformed)
            tgt = self.build_raw(ent.parents[0], memo)
            if tgt is None or not isinstance(tgt.engine, sql.Engine):
                return None
            if kind == "mark":
                from .world import SimMarker

                raw = SimMarker(target=tgt)
            elif isinstance(tgt, (LeafRelation, Materialization)):
                raw = tgt
            else:
                self.nrawmat = getattr(self, "nrawmat", 0) + 1
                raw = Materialization(target=tgt, name=f"raw{self.nrawmat}_{op.get('name') or 'm'}")
        elif kind in ("chain", "join"):
            l = self.build_raw(ent.parents[0], memo)
            r = self.build_raw(ent.parents[1], memo)
            if l is None or r is None or l.engine is not r.engine:
                return None
            if kind == "chain":
                o = Chain()
            else:
                if l.is_join_identity or r.is_join_identity:
                    return None
                common = frozenset(t for t in (set(l.columns) & set(r.columns)))
                p = build_pred(op["p"], tags) if op.get("p") is not None else None
                o = Join(p, common, common) if p is not None else Join(min_columns=common, max_columns=common)
            raw = BinaryOperationRelation(operation=o, lhs=l, rhs=r, columns=o.applied_columns(l, r))
        memo[k] = raw
        return raw

    def op_rawtree(self, op):
        from .execu import Entry

        t = self.ref(op["t"])
        if t is None or not M.is_sql(t.mv.engine):
            return
        raw = self.build_raw(t, {})
        if raw is None:
            return
        w = self.w
        if needs_processing(raw):
            # a raw tree with materializations: evaluate it once through a Processor (which attaches the payloads to
            # the caller's own nodes), then conform the *same* tree: the second use must still find everything cached
            try:
                w.processor.process(raw)
            except Exception as e:  # noqa
                if w.fault.fired and __import__("relsim.execu", fromlist=["is_injected"]).is_injected(e, w.fault.fired):
                    return
                if "will not preserve row order" in str(e):
                    return
                self.violate("conform_exception", {"raw": str(raw)[:200], "phase": "process(raw)"}, entry=t, exc=e)
                return
            self.stats["raw_processed"] += 1
            if needs_processing(raw):
                return
        cached = not needs_processing(raw)
        try:
            c1 = w.sql.conform(raw)
            c2 = w.sql.conform(c1)
        except Exception as e:  # noqa
            self.violate("conform_exception", {"raw": str(raw)[:200]}, entry=t, exc=e)
            return
        self.stats["raw_conformed"] += 1
        if c2 is not c1:
            self.violate("conform_not_idempotent", {"raw": str(raw)[:200]}, entry=t)
        if cached and needs_processing(c1):
            self.violate("conform_lost_payload", {"raw": str(raw)[:200], "conformed": str(c1)[:200]}, entry=t)
            return
        ent = Entry(c1, t.mv, op, [t])
        ent.taint = set(t.taint)
        self.check_select_coherence(ent)
        self.eval_and_check(ent, op)
        self.logev(w.op_index, "rawtree", str(c1))

    def op_conform_inner(self, op):
        """sql.Engine.conform applied to an inner, locked node of a SQL tree (a leaf or a materialization, possibly
        carrying a cached payload): the node must stay the identical object inside the conformed result (C15), the
        result must be idempotent under conform and evaluate to the node's rows (C17)."""
        from .execu import Entry
        from .oracles import all_nodes

        t = self.ref(op["t"])
        if t is None or not M.is_sql(t.mv.engine):
            return
        w = self.w
        cands = [n for n in all_nodes(t.rel) if isinstance(n, (LeafRelation, Materialization)) and isinstance(n.engine, sql.Engine)]
        if not cands:
            return
        node = cands[op.get("node", 0) % len(cands)]
        try:
            c1 = w.sql.conform(node)
            c2 = w.sql.conform(c1)
        except Exception as e:  # noqa
            self.violate("conform_exception", {"node": str(node)[:200]}, entry=t, exc=e)
            return
        self.stats["conform_inner"] += 1
        ent = Entry(c1, t.mv, op, [t])
        if c2 is not c1:
            self.violate("conform_not_idempotent", {"node": str(node)[:200]}, entry=ent)
        if not any(n is node for n in all_nodes(c1)):
            self.violate("locked_rewritten", {"node": str(node)[:200], "op": op, "via": "sql.Engine.conform"}, entry=ent)
        if node.payload is not None:
            self.probes["conform_of_payload_node"] += 1
            try:
                want = self.payload_rows(node)
                got = w.run_sql(c1)
            except Exception as e:  # noqa
                self.violate("conform_exception", {"node": str(node)[:200], "why": "conformed node cannot be evaluated"},
                             entry=ent, exc=e)
                return
            cols = sorted(c.qualified_name for c in node.columns)
            if M.bag(want, cols) != M.bag(got, cols):
                self.violate("rows_mismatch", {"what": "conform changed the rows of a cached node",
                                               "expected": sorted(M.bag(want, cols).items())[:6],
                                               "got": sorted(M.bag(got, cols).items())[:6]}, entry=ent)

    def check_select_coherence(self, ent):
        from lsst.daf.relation.sql import Select

        seen = set()
        stack = [ent.rel]
        while stack:
            n = stack.pop()
            if id(n) in seen:
                continue
            seen.add(id(n))
            stack.extend(children(n))
            if not isinstance(n, Select):
                continue
            stack.append(n.skip_to)
            self.stats["selects_checked"] += 1
            cur = n.target
            problem = None
            for slot, cls in (("slice", Slice), ("deduplication", Deduplication), ("projection", Projection), ("sort", Sort)):
                rec = getattr(n, slot)
                if isinstance(cur, UnaryOperationRelation) and isinstance(cur.operation, cls) and cur is not n.skip_to:
                    if rec is None or cur.operation != rec:
                        problem = f"{slot} node {cur.operation} differs from recorded {rec}"
                        break
                    cur = cur.target
                else:
                    nothing = (
                        rec is None
                        or (slot == "slice" and rec.start == 0 and rec.stop is None)
                        or (slot == "sort" and not rec.terms)
                        or (slot == "projection" and rec.columns == frozenset(cur.columns))
                    )
                    if not nothing:
                        problem = f"recorded {slot} {rec} has no node between marker and skip target"
                        break
            if problem is None and cur is not n.skip_to:
                problem = f"walking target from the marker does not reach skip_to (stopped at {str(cur)[:80]})"
            comp = isinstance(n.skip_to, BinaryOperationRelation) and isinstance(n.skip_to.operation, Chain)
            if problem is None and bool(n.is_compound) != comp:
                problem = f"is_compound={n.is_compound} but skip_to chain={comp}"
            if problem is not None:
                self.violate("select_incoherent", {"select": str(n)[:200], "problem": problem}, entry=ent)
                return

    # ------------------------------------------------------------ ill-formed
    def build_call(self, op, ops):
        """Return a thunk issuing the factory call described by op on operand entries."""
        tags = self.w.tags
        k = op["k"]
        fl = self.flags(op)
        if k == "calc":
            return lambda: ops[0].rel.with_calculated_column(tags[op["tag"]], build_expr(op["e"], tags), **fl)
        if k == "proj":
            return lambda: ops[0].rel.with_only_columns({tags[c] for c in op["cols"]}, **fl)
        if k == "sel":
            return lambda: ops[0].rel.with_rows_satisfying(build_pred(op["p"], tags), **fl)
        if k == "dedup":
            return lambda: ops[0].rel.without_duplicates(**fl)
        if k == "sort":
            return lambda: ops[0].rel.sorted([SortTerm(build_expr(e, tags), bool(a)) for e, a in op["terms"]], **fl)
        if k == "slice":
            if "index" in op:
                return lambda: ops[0].rel[op["index"]]
            if op.get("pe") is not None and op.get("step") in (None, 1) and (op["start"] or 0) >= 0 \
                    and (op["stop"] is None or op["stop"] >= (op["start"] or 0)):
                from lsst.daf.relation import Slice as _Slice

                return lambda: _Slice(op["start"] or 0, op["stop"]).apply(ops[0].rel, **fl)
            return lambda: ops[0].rel[slice(op["start"], op["stop"], op.get("step"))]
        if k == "chain":
            return lambda: ops[0].rel.chain(ops[1].rel)
        if k == "join":
            kw = {x: bool(op[y]) for x, y in (("backtrack", "bt"), ("transfer", "tr")) if y in op}
            if op.get("direct") and not op.get("cc"):
                def call_direct():
                    from lsst.daf.relation import Join as _Join

                    pred = build_pred(op["p"], tags) if op.get("p") is not None else None
                    return (_Join(pred) if pred is not None else _Join()).apply(ops[0].rel, ops[1].rel)

                return call_direct
            if op.get("cmax") is not None:
                def call_cmax():
                    from lsst.daf.relation import Join as _Join, Predicate as _P

                    pred = build_pred(op["p"], tags) if op.get("p") is not None else _P.literal(True)
                    j = _Join(pred, frozenset(), frozenset(tags[c] for c in op["cmax"]))
                    return j.partial(ops[1].rel).apply(ops[0].rel, **kw)

                return call_cmax
            if op.get("cc"):
                def call():
                    from lsst.daf.relation import Join as _Join, Predicate as _P

                    shared = sorted(set(ops[0].mv.cols) & set(ops[1].mv.cols))
                    cc = frozenset(tags[c] for c in (op["cc"] if isinstance(op["cc"], list) else shared))
                    pred = build_pred(op["p"], tags) if op.get("p") is not None else _P.literal(True)
                    return _Join(pred, cc, cc).partial(ops[1].rel).apply(ops[0].rel, **kw)

                return call
            return lambda: ops[0].rel.join(ops[1].rel, build_pred(op["p"], tags) if op.get("p") is not None else None, **kw)
        raise ValueError(k)

    def illformed_reason(self, op, ops):
        """Model's verdict: why is this request ill-formed (None if it is not)?
        Returns (reason, expected exception classes)."""
        k = op["k"]
        t = ops[0].mv
        cols = set(t.cols)
        if k == "calc":
            if not expr_cols(op["e"]) <= cols:
                return "missing column in calculation", (ColumnError,)
            if op["tag"] in cols:
                return "calculated tag already present", (ColumnError,)
            if "itonly" in self._udfs(op) and self._all_engines_sql(op, t):
                return "expression not supported by engine", (EngineError,)
        if k == "proj" and not set(op["cols"]) <= cols:
            return "missing column in projection", (ColumnError,)
        if k == "sel":
            from .exprs import pred_trivial

            if not pred_cols(op["p"]) <= cols and pred_trivial(op["p"]) is not True:
                return "missing column in predicate", (ColumnError,)
            if pred_cols(op["p"]) <= cols and "itonly" in self._udfs(op) and self._all_engines_sql(op, t):
                return "predicate not supported by engine", (EngineError,)
        if k == "sort" and op["terms"]:
            if any(not expr_cols(e) <= cols for e, _ in op["terms"]):
                return "missing column in sort term", (ColumnError,)
        if k == "slice":
            if "index" in op:
                return "non-slice index", (TypeError,)
            if op.get("step") not in (None, 1):
                return "stepped slice", (TypeError,)
            if op["start"] is not None and op["start"] < 0:
                return "negative slice", (ValueError,)
            if op["stop"] is not None and op["stop"] < (op["start"] or 0):
                return "reversed slice", (ValueError,)
        if k == "chain":
            r = ops[1].mv
            if t.engine != r.engine:
                return "chain operands in different engines", (EngineError,)
            if t.cols != r.cols:
                return "chain operands differ in columns", (ColumnError,)
        if k == "join":
            r = ops[1].mv
            if op.get("p") is not None and not pred_cols(op["p"]) <= (cols | set(r.cols)):
                return "missing column in join predicate", (ColumnError,)
            if isinstance(op.get("cc"), list) and not set(op["cc"]) <= (cols & set(r.cols)):
                return "explicit join common columns missing from an operand", (ColumnError,)
            if t.engine != r.engine and not op.get("bt", True) and not op.get("tr", False):
                return "join operands in different engines, no transfer allowed", (EngineError,)
        return None, ()

    @staticmethod
    def _udfs(op):
        from .exprs import expr_udfs, pred_udfs

        u = set()
        if "e" in op:
            u |= expr_udfs(op["e"])
        if op.get("p") is not None:
            u |= pred_udfs(op["p"])
        return u

    @staticmethod
    def _all_engines_sql(op, t):
        """Will the operation certainly be inserted into the SQL engine (which does not support `itonly`)?"""
        if not M.is_sql(t.engine):
            return False
        if op.get("pe") in (None, "sql"):
            return True
        return not op.get("bt", True) and not op.get("tr", False)

    def op_ill(self, op):
        inner = op["op"]
        ops = [self.ref(inner[f]) for f in ("t", "l", "r") if f in inner]
        if not ops or ops[0] is None:
            return
        # a second, independent defect in the request (row-order loss) is outside the single-edit scope
        reason, classes = self.illformed_reason(inner, ops)
        if reason is None:
            self.stats["ill:not-ill-formed"] += 1
            return
        if inner["k"] in ("chain", "join") and any(M.is_sql(e.mv.engine) and e.mv.pending_sort for e in ops):
            return
        self.stats["ill:" + reason] += 1
        self.stats["ill:total"] += 1
        route = "root"
        if inner.get("pe") is not None and inner.get("pe") != ops[0].mv.engine:
            route = "transferred" if inner.get("tr") and not inner.get("bt", True) else "backtracked"
        elif M.is_sql(ops[0].mv.engine):
            route = "sql-conformed"
        self.ill_routes.add((reason, inner["k"], route))
        try:
            call = self.build_call(inner, ops)
            rel = call()
        except classes:
            self.probes["ill_rejected"] += 1
            self.logev(self.w.op_index, "ill", reason, "rejected")
            return
        except Exception as e:  # noqa
            from .execu import Entry

            ent = Entry(ops[0].rel, ops[0].mv, inner, ops, alias=True)
            # the documented order-loss error may pre-empt the expected one
            if isinstance(e, RelationalAlgebraError) and "will not preserve row order" in str(e):
                return
            self.violate("wrong_exception_class", {"reason": reason, "expected": [c.__name__ for c in classes], "op": inner},
                         entry=ent, exc=e)
            return
        from .execu import Entry

        ent = Entry(rel, ops[0].mv, inner, ops)
        self.violate("missing_rejection", {"reason": reason, "op": inner, "returned": str(rel)[:200]}, entry=ent)

    # ---------------------------------------------------------------- rebuild
    def rebuild(self, ent, memo):
        k = id(ent)
        if k in memo:
            return memo[k]
        op = ent.op
        kind = op["k"]
        out = None
        if ent.alias:
            out = self.rebuild(ent.parents[0], memo)
        elif kind == "leaf":
            out = ent.rel
        elif kind in ("calc", "proj", "sel", "dedup", "sort", "slice", "chain", "join"):
            ps = [self.rebuild(p, memo) for p in ent.parents]
            if any(p is None for p in ps):
                return None

            class _E:  # minimal stand-in carrying .rel
                def __init__(self, rel):
                    self.rel = rel

            out = self.build_call(op, [_E(p) for p in ps])()
        elif kind == "mat":
            p = self.rebuild(ent.parents[0], memo)
            if p is None or op.get("name") is None:
                return None
            out = p.materialized(op["name"])
        elif kind == "xfer":
            p = self.rebuild(ent.parents[0], memo)
            if p is None:
                return None
            out = p.transferred_to(self.w.engines[op["to"]])
        memo[k] = out
        return out

    def op_rebuild(self, op):
        t = self.ref(op["t"])
        if t is None or t.taint:
            return
        try:
            again = self.rebuild(t, {})
        except Exception:  # the original construction succeeded; failures here are covered elsewhere
            return
        if again is None:
            return
        self.stats["rebuilds"] += 1
        if not (again == t.rel):
            self.violate("rebuild_not_equal", {"first": str(t.rel)[:200], "second": str(again)[:200]}, entry=t)
            return
        try:
            h1, h2 = hash(t.rel), hash(again)
        except TypeError as e:
            self.violate("unhashable", {"tree": str(t.rel)[:200]}, entry=t, exc=e)
            return
        if h1 != h2:
            self.violate("rebuild_hash_differs", {"tree": str(t.rel)[:200]}, entry=t)
        self.logev(self.w.op_index, "rebuild", "ok")

    def op_twin(self, op):
        """Append an *equal but distinct* copy of a relation: the same calls issued again from the leaves up (callers
        that rebuild a query instead of keeping it).  Everything said about the original must hold for the copy, and
        later calls on either must not be confused with calls on the other."""
        from .execu import Entry

        t = self.ref(op["t"])
        if t is None:
            return
        if t.taint:
            return self.alias(op, t, "tainted")
        try:
            again = self.rebuild(t, {})
        except Exception:  # noqa  (the original construction succeeded; failures here are covered elsewhere)
            again = None
        if again is None or again is t.rel:
            return self.alias(op, t, "no-twin")
        ent = Entry(again, t.mv, op, [t])
        self.pool.append(ent)
        self.stats["twins"] += 1
        self.logev(self.w.op_index, "twin", str(again))
        self.check_new(ent, op, [t])

    def op_ephemeral(self, op):
        """Short-lived relations: one to three unary calls on top of a pool entry, built from fresh expression objects
        inside a local scope, evaluated, compared with the model and *dropped* (nothing of them is kept, and the
        garbage collector runs), several times in a row.  Whatever the library remembers between calls must not be
        keyed on the identity of objects that no longer exist."""
        from . import execu
        from .execu import Entry

        t = self.ref(op["t"])
        if t is None or t.taint or needs_processing(t.rel):
            return
        from .exprs import pred_trivial

        def one(subs):
            rel, mv = t.rel, t.mv

            class _E:
                pass

            for sub in subs:
                cols = set(mv.cols)
                k = sub["k"]
                if k == "sel":
                    if not pred_cols(sub["p"]) <= cols:
                        return None
                    f = lambda v: M.m_sel(v, sub["p"])  # noqa: E731
                elif k == "calc":
                    if not expr_cols(sub["e"]) or not expr_cols(sub["e"]) <= cols or sub["tag"] in cols:
                        return None
                    f = lambda v: M.m_calc(v, sub["tag"], sub["e"])  # noqa: E731
                elif k == "proj":
                    if not set(sub["cols"]) <= cols:
                        return None
                    f = lambda v: M.m_proj(v, sub["cols"])  # noqa: E731
                elif k == "sort":
                    if any(not expr_cols(e) <= cols for e, _ in sub["terms"]):
                        return None
                    f = lambda v: M.m_sort(v, sub["terms"])  # noqa: E731
                elif k == "slice":
                    f = lambda v: M.m_slice(v, sub["start"], sub["stop"])  # noqa: E731
                else:
                    return None
                if M.is_sql(mv.engine) and mv.pending_sort and k == "proj":
                    return None         # (may legitimately be refused; covered elsewhere)
                holder = _E()
                holder.rel, holder.mv = rel, mv
                try:
                    rel = self.build_call(sub, [holder])()
                except Exception:  # noqa  (rejections and their classes are judged by other ops)
                    return None
                mv = f(mv)
            ent = Entry(rel, mv, op, [t])
            ent.all_bag_det = t.all_bag_det and mv.bag_det
            try:
                if self.profile.prop == "C17" and M.is_sql(mv.engine):
                    raw = self.build_raw(t, {})
                    if raw is not None:
                        for sub in subs:
                            raw = self._raw_unary(sub, raw)
                            if raw is None:
                                break
                    if raw is not None:
                        ent = Entry(self.w.sql.conform(raw), mv, op, [t])
                rows, _ = self.evaluate(ent)
            except Exception as e:  # noqa
                self.on_exec_exception(ent, e)
                return None
            self.check_rows(ent, rows)
            return True

        execu.MEMO_OFF[0] = True
        try:
            for subs in op["subs"]:
                if one(subs):
                    self.stats["ephemeral"] += 1
                MON.reset()         # (reference counting frees the dropped tree at once; no cycles are involved)
        finally:
            execu.MEMO_OFF[0] = False

    def _raw_unary(self, sub, tgt):
        tags = self.w.tags
        k = sub["k"]
        if k == "calc":
            o = Calculation(tags[sub["tag"]], build_expr(sub["e"], tags))
        elif k == "proj":
            o = Projection(frozenset(tags[c] for c in sub["cols"]))
        elif k == "sel":
            o = Selection(build_pred(sub["p"], tags))
        elif k == "sort":
            if not sub["terms"]:
                return tgt
            o = Sort(tuple(SortTerm(build_expr(e, tags), bool(a)) for e, a in sub["terms"]))
        elif k == "slice":
            if not sub["start"] and sub["stop"] is None:
                return tgt
            o = Slice(sub["start"], sub["stop"])
        else:
            return None
        return UnaryOperationRelation(operation=o, target=tgt, columns=o.applied_columns(tgt))

    def op_twice(self, op):
        """Compile / execute the same relation twice: identical SQL text, identical rows."""
        t = self.ref(op["t"])
        if t is None or needs_processing(t.rel) or t.taint:
            return
        w = self.w
        counters = {k: e.relation_name_counter for k, e in sorted(w.engines.items())}
        try:
            if isinstance(t.rel.engine, sql.Engine):
                s1 = w.sql_text(w.sql.to_executable(t.rel))
                s2 = w.sql_text(w.sql.to_executable(t.rel))
                if s1 != s2:
                    self.violate("compile_not_repeatable", {"first": s1[:300], "second": s2[:300]}, entry=t)
                r1 = w.run_sql(t.rel)
            else:
                res = t.rel.engine.execute(t.rel)
                r1 = [{c.qualified_name: v for c, v in r.items()} for r in res]
                if not w.fault.fired:
                    # the object execute() returned is a (re-)iterable: a second pass over the very same object
                    r1b = [{c.qualified_name: v for c, v in r.items()} for r in res]
                    if r1b != r1:
                        self.violate("execute_not_repeatable", {"first_pass": r1[:6], "second_pass_of_same_result": r1b[:6]},
                                     entry=t)
                        return
        except Exception as e:  # noqa
            self.on_exec_exception(t, e)
            return
        try:
            if isinstance(t.rel.engine, sql.Engine):
                r2 = w.run_sql(t.rel)
            else:
                r2 = [{c.qualified_name: v for c, v in r.items()} for r in t.rel.engine.execute(t.rel)]
        except Exception as e:  # noqa
            from .execu import is_injected

            if w.fault.fired and is_injected(e, w.fault.fired):
                return
            # the first evaluation succeeded: the second, of the very same relation, must too
            self.violate("execute_not_repeatable", {"first": r1[:6], "second": "raised"}, entry=t, exc=e)
            return
        self.stats["twice"] += 1
        after = {k: e.relation_name_counter for k, e in sorted(w.engines.items())}
        if after != counters:
            # compiling / executing is a read-only use of a relation: it must not consume engine state
            self.violate("execute_not_repeatable", {"engine_name_counters_before": counters, "after": after}, entry=t)
        if r1 != r2:
            self.violate("execute_not_repeatable", {"first": r1[:6], "second": r2[:6]}, entry=t)

    # ---------------------------------------------------------------- iterate
    def op_iterate(self, op):
        """C18: execute() then iterate the result `times` times, checking the leaf ledger."""
        from .execu import is_injected

        t = self.ref(op["t"])
        if t is None or M.is_sql(t.mv.engine) or needs_processing(t.rel):
            return
        w = self.w
        rel = t.rel
        lazy, eag = leaf_occurrences(rel)
        allowed = live_leaf_ids(rel)
        s0 = self.leaf_starts()
        mats = uncached_iteration_mats(rel)
        try:
            rows = rel.engine.execute(rel)
        except Exception as e:  # noqa
            self.on_exec_exception(t, e)
            return
        self.check_cached(t, mats)
        s1 = self.leaf_starts()
        self.stats["iterate_ops"] += 1
        for lid in s1:
            d = s1[lid] - s0.get(lid, 0)
            if d > eag.get(lid, 0):
                kind = "eager_leaf_iteration" if eag.get(lid, 0) == 0 else "multiple_starts"
                self.violate(kind, {"leaf": lid, "starts_during_execute": d, "eager_occurrences": eag.get(lid, 0),
                                    "lazy_occurrences": lazy.get(lid, 0)}, entry=t)
        if not eag and sum(lazy.values()):
            self.probes["lazy_only_tree"] += 1
        first = None
        for i in range(op.get("times", 2)):
            b = self.leaf_starts()
            partial = op.get("partial") if i == 0 else None
            try:
                it = iter(rows)
                got = []
                for r in it:
                    got.append({c.qualified_name: v for c, v in r.items()})
                    if partial is not None and len(got) >= partial:
                        close = getattr(it, "close", None)
                        if close:
                            close()
                        got = None
                        self.probes["consumer_abandon"] += 1
                        break
            except Exception as e:  # noqa
                if w.fault.fired and is_injected(e, w.fault.fired):
                    self.stats["fault_surfaced"] += 1
                    got = None
                else:
                    self.on_exec_exception(t, e)
                    return
            a = self.leaf_starts()
            for lid in a:
                d = a[lid] - b.get(lid, 0)
                if d > lazy.get(lid, 0):
                    self.violate("multiple_starts", {"leaf": lid, "starts_in_one_iteration": d,
                                                     "lazy_occurrences": lazy.get(lid, 0), "iteration": i}, entry=t)
            if got is not None:
                self.stats["full_iterations"] += 1
                self.check_rows(t, got)
                self.check_bounds(t, len(got))
                if first is not None and got != first:
                    self.violate("iteration_not_repeatable", {"first": first[:5], "again": got[:5]}, entry=t)
                first = got
        self.check_hidden_leaves(t, s0, allowed)
        self.dn.add(("iter", tuple(sorted(lazy.items())), tuple(sorted(eag.items())), op.get("times", 2), op.get("partial")))
        self.logev(w.op_index, "iterate", op.get("times", 2))
