"""Column expressions and predicates as JSON-able nested lists.

Expr : ["ref", name] | ["lit", int] | ["neg", e] | ["add"|"sub"|"mul", e, e]
       | ["udf", fname, e]                       (engine function, may fault)
Pred : ["cmp", "eq|ne|lt|le|gt|ge", e, e] | ["cmpr", ...] (same, restricted to the iteration engines) | ["and", p...] | ["or", p...]
       | ["not", p] | ["plit", bool] | ["inrange", e, start, stop, step]
       | ["inseq", e, [e, ...]]

Three independent consumers:
  * build_*      -> library objects (what the system under test sees)
  * eval_*       -> the history model (direct interpretation of the lists)
  * lib_eval_*   -> the tree interpreter (walks *library* expression objects,
                    using only their public attributes)
"""
from __future__ import annotations

import operator

CMP = {
    "eq": operator.eq,
    "ne": operator.ne,
    "lt": operator.lt,
    "le": operator.le,
    "gt": operator.gt,
    "ge": operator.ge,
}
ARITH = {"add": operator.add, "sub": operator.sub, "mul": operator.mul}

# pure functions standing behind the named engine functions
UDFS = {
    "inc": lambda x: x + 1,
    "dbl": lambda x: 2 * x,
    "itonly": lambda x: x - 1,   # registered with supporting_engine_types=(iteration.Engine,)
    "only2": lambda x: x + 2,    # registered in engine "it2" only (no supporting_engine_types restriction)
    "bitlen": lambda x: x.bit_length(),   # registered nowhere: the iteration engines fall back to the method of the value
    "pdiv": lambda x: 6 // x,    # *partial*: raises ZeroDivisionError on 0; iteration engines only (like itonly)
}


# ---------------------------------------------------------------- columns used
def expr_cols(e) -> set[str]:
    k = e[0]
    if k == "ref":
        return {e[1]}
    if k == "lit":
        return set()
    if k == "neg":
        return expr_cols(e[1])
    if k in ("udf", "udfu", "udfa"):
        return expr_cols(e[2])
    return expr_cols(e[1]) | expr_cols(e[2])


def pred_cols(p) -> set[str]:
    k = p[0]
    if k in ("cmp", "cmpr"):
        return expr_cols(p[2]) | expr_cols(p[3])
    if k in ("and", "or"):
        out: set[str] = set()
        for q in p[1:]:
            out |= pred_cols(q)
        return out
    if k == "not":
        return pred_cols(p[1])
    if k == "plit":
        return set()
    if k == "inrange":
        return expr_cols(p[1])
    if k == "inseq":
        out = expr_cols(p[1])
        for q in p[2]:
            out |= expr_cols(q)
        return out
    raise ValueError(p)


def expr_udfs(e) -> set[str]:
    k = e[0]
    if k in ("ref", "lit"):
        return set()
    if k == "neg":
        return expr_udfs(e[1])
    if k in ("udf", "udfa"):
        return {e[1]} | expr_udfs(e[2])
    if k == "udfu":
        return {"u:" + e[1]} | expr_udfs(e[2])       # unrestricted twin: supported by every engine
    return expr_udfs(e[1]) | expr_udfs(e[2])


def pred_udfs(p) -> set[str]:
    k = p[0]
    if k == "cmpr":      # a comparison restricted to the iteration engines: counts as engine-restricted like "itonly"
        return {"itonly"} | expr_udfs(p[2]) | expr_udfs(p[3])
    if k == "cmp":
        return expr_udfs(p[2]) | expr_udfs(p[3])
    if k in ("and", "or"):
        out: set[str] = set()
        for q in p[1:]:
            out |= pred_udfs(q)
        return out
    if k == "not":
        return pred_udfs(p[1])
    if k == "plit":
        return set()
    if k == "inrange":
        return expr_udfs(p[1])
    if k == "inseq":
        out = expr_udfs(p[1])
        for q in p[2]:
            out |= expr_udfs(q)
        return out
    raise ValueError(p)


# ------------------------------------------------------------------ model eval
def eval_expr(e, row):
    k = e[0]
    if k == "ref":
        return row[e[1]]
    if k == "lit":
        return e[1]
    if k == "neg":
        return -eval_expr(e[1], row)
    if k in ("udf", "udfu", "udfa"):
        return UDFS[e[1]](eval_expr(e[2], row))
    return ARITH[k](eval_expr(e[1], row), eval_expr(e[2], row))


def eval_pred(p, row) -> bool:
    k = p[0]
    if k in ("cmp", "cmpr"):
        return bool(CMP[p[1]](eval_expr(p[2], row), eval_expr(p[3], row)))
    if k == "and":
        return all(eval_pred(q, row) for q in p[1:])
    if k == "or":
        return any(eval_pred(q, row) for q in p[1:])
    if k == "not":
        return not eval_pred(p[1], row)
    if k == "plit":
        return bool(p[1])
    if k == "inrange":
        return eval_expr(p[1], row) in range(p[2], p[3], p[4])
    if k == "inseq":
        v = eval_expr(p[1], row)
        return any(v == eval_expr(q, row) for q in p[2])
    raise ValueError(p)


def pred_trivial(p):
    """Model's own constant folding (True / False / None), used only to decide
    what C20 may *expect*; deliberately simple."""
    k = p[0]
    if k == "plit":
        return bool(p[1])
    if k == "and":
        r = True
        for q in p[1:]:
            t = pred_trivial(q)
            if t is False:
                return False
            if t is None:
                r = None
        return r
    if k == "or":
        r = False
        for q in p[1:]:
            t = pred_trivial(q)
            if t is True:
                return True
            if t is None:
                r = None
        return r
    if k == "not":
        t = pred_trivial(p[1])
        return None if t is None else (not t)
    return None


# --------------------------------------------------------------- library build
def build_expr(e, tags):
    from lsst.daf.relation import ColumnExpression, ColumnFunction, iteration

    k = e[0]
    if k == "ref":
        return ColumnExpression.reference(tags[e[1]], dtype=int)
    if k == "lit":
        return ColumnExpression.literal(e[1], dtype=int)
    if k == "neg":
        return ColumnFunction("__neg__", (build_expr(e[1], tags),), dtype=int, supporting_engine_types=None)
    if k == "udf":
        sup = (iteration.Engine,) if e[1] in ("itonly", "pdiv") else None
        arg = build_expr(e[2], tags)
        if e[1] == "bitlen":
            return arg.method("bit_length", dtype=int, supporting_engine_types=(iteration.Engine,))
        if len(repr(e)) % 2:
            # the other documented spelling of the same thing: argument.method(name, ...)
            return arg.method(e[1], dtype=int, supporting_engine_types=sup)
        return ColumnExpression.function(e[1], arg, dtype=int, supporting_engine_types=sup)
    if k == "udfa":
        # a function that *declares* every engine type itself; its argument may still be restricted
        from lsst.daf.relation import sql

        return ColumnExpression.function(e[1], build_expr(e[2], tags), dtype=int,
                                         supporting_engine_types=(sql.Engine, iteration.Engine))
    if k == "udfu":
        # same name and arguments as the restricted function (hence == and equal hash), but no engine restriction
        return ColumnExpression.function(e[1], build_expr(e[2], tags), dtype=int, supporting_engine_types=None)
    return ColumnFunction(
        f"__{k}__", (build_expr(e[1], tags), build_expr(e[2], tags)), dtype=int, supporting_engine_types=None
    )


def build_pred(p, tags):
    from lsst.daf.relation import ColumnContainer, Predicate

    k = p[0]
    if k == "cmp":
        return getattr(build_expr(p[2], tags), p[1])(build_expr(p[3], tags))
    if k == "cmpr":
        from lsst.daf.relation import iteration

        return build_expr(p[2], tags).predicate_method(f"__{p[1]}__", build_expr(p[3], tags),
                                                       supporting_engine_types=(iteration.Engine,))
    if k == "and":
        return Predicate.logical_and(*[build_pred(q, tags) for q in p[1:]])
    if k == "or":
        return Predicate.logical_or(*[build_pred(q, tags) for q in p[1:]])
    if k == "not":
        return build_pred(p[1], tags).logical_not()
    if k == "plit":
        return Predicate.literal(bool(p[1]))
    if k == "inrange":
        return ColumnContainer.range_literal(range(p[2], p[3], p[4])).contains(build_expr(p[1], tags))
    if k == "inseq":
        return ColumnContainer.sequence([build_expr(q, tags) for q in p[2]], dtype=int).contains(
            build_expr(p[1], tags)
        )
    raise ValueError(p)


# ------------------------------------------- interpreter over library objects
def lib_eval_expr(e, row):
    """Evaluate a *library* ColumnExpression on a row keyed by column name."""
    t = type(e).__name__
    if t == "ColumnLiteral":
        return e.value
    if t == "ColumnReference":
        return row[e.tag.qualified_name]
    if t == "ColumnFunction":
        args = [lib_eval_expr(a, row) for a in e.args]
        n = e.name
        if n == "__neg__":
            return -args[0]
        if n == "__add__":
            return args[0] + args[1]
        if n == "__sub__":
            return args[0] - args[1]
        if n == "__mul__":
            return args[0] * args[1]
        if n in UDFS:
            return UDFS[n](*args)
        if n == "bit_length":
            return args[0].bit_length()
    raise NotImplementedError(f"interp: expression {e!r}")


def lib_eval_pred(p, row) -> bool:
    t = type(p).__name__
    if t == "PredicateLiteral":
        return bool(p.value)
    if t == "PredicateFunction":
        a, b = (lib_eval_expr(x, row) for x in p.args)
        return bool(CMP[p.name.strip("_")](a, b))
    if t == "LogicalAnd":
        return all(lib_eval_pred(q, row) for q in p.operands)
    if t == "LogicalOr":
        return any(lib_eval_pred(q, row) for q in p.operands)
    if t == "LogicalNot":
        return not lib_eval_pred(p.operand, row)
    if t == "ColumnInContainer":
        v = lib_eval_expr(p.item, row)
        c = p.container
        if type(c).__name__ == "ColumnRangeLiteral":
            return v in c.value
        return any(v == lib_eval_expr(q, row) for q in c.items)
    raise NotImplementedError(f"interp: predicate {p!r}")
