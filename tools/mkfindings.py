"""dev helper: assemble /verif/known_findings.json from findings/witness_*.json"""
import json, os
W = "/verif/findings"
def wit(fid):
    r = json.load(open(f"{W}/witness_{fid}.json"))
    return {"profile": r["profile"], "scenario": r["scenario"], "signature": r["signature"]}
known = [
 ("F4", ["C03", "C04", "C06"], "Projection.commute moves a projection upstream of a Deduplication when backtracking (sql_leaf.transferred_to(it).without_duplicates().with_only_columns({a}, preferred_engine=sql) returns [1,2] instead of [1,1,2]); tests/test_projection.py::test_backtracking_apply pins this move, so it cannot be repaired without editing the suite"),
 ("F16", ["C08"], "a chain whose operand is itself a chain compiles to a parenthesised compound SELECT, which SQLite rejects (near \"(\": syntax error); the parenthesised strings are pinned by tests/test_sql_engine.py::test_chains"),
 ("F19", ["C08"], "it_leaf.join(it_leaf2) is accepted by the factory; iteration.Engine.execute() then raises EngineError('Joins are not supported by the iteration engine') - a documented limitation, but an unsupported-node error after acceptance"),
]
fixed = [
 ("F1", "C09", "c6c6e2b", "hash(rel.sorted([...])) raised TypeError: unhashable type 'SortTerm'"),
 ("F2", "C09", "7353838", "ColumnContainer.sequence([..]) kept the list; relation with such a predicate unhashable"),
 ("F3", "C05", "8e5c8c2", "leaf[3:5][7:8]: Slice.then raised ValueError 'Slice stop 5 is less than its start 10'"),
 ("F5", "C04", "c950f5f", "Calculation.commute placed +[y=..] beneath a projection hiding y (ColumnError / recalculated existing column); also C03"),
 ("F8", "C08", "ecddd32", "a.chain(b).sorted([b]).with_only_columns({a}): projection pushed inside the chain beneath the sort; KeyError at compile"),
 ("F9", "C02", "acc0e87", "L{a,c}.join(R{a,b,c}.with_only_columns({a,b})) returned R's projected-away c"),
 ("F10", "C02", "268ffbf", "UNION operands listed equal column sets in different orders (salted / colliding tag hashes): values swapped between columns"),
 ("F11", "C07", "6cc78e9", "it_rel.transferred_to(sql).materialized('m'): process() attached None / attached the payload to the Select wrapper; result not compilable, transfer re-run every time; also C10"),
 ("F17", "C08", "d1f7f18", "a.chain(b).join(c): NotImplementedError 'Unsupported relation type ... ∪ ...' at compile"),
 ("F18", "C08", "79e5e29", "rel.with_only_columns({c,d}).with_calculated_column(y, e) with a hidden upstream y: calculation slid beneath the projection; process() raised ColumnError; also C07"),
 ("F20", "C03", "a76dd81", "leaf{d}.with_calculated_column(x,d,preferred_engine=it,transfer=True).with_only_columns({d}, preferred_engine=sql) silently kept column x"),
 ("F21", "C02", "a5c07d1", "identity.join(rel, predicate) returned all rows of rel: predicate dropped when an operand is a join identity; also C03, C06"),
 ("F22", "C04", "e1e33f2", "Sort.commute moved a new sort upstream of an existing sort: final order decided by the old sort; also C03"),
 ("F23", "C04", "3fe3523", "PartialJoin.commute moved a join beneath a projection hiding a column that the fixed operand also has"),
 ("F29", "C03", "249999f", "an operation with preferred_engine applied to a tree returned by process(): backtracking that fails below a payload-carrying Transfer made reapply() return a payload-less copy, so the half-commuted operation (e.g. a widened Projection) was installed: +[y](Π[c,e,y](→[it](L0))) cannot be evaluated"),
 ("F30", "C14", "d360695", "process() output ending in a round trip it->it2->it (empty chain branch pruned): rel.transferred_to(rel.engine) returned the leaf upstream of the round trip instead of rel itself"),
 ("F28", "C07", "d0e28da", "chain(X, statically-empty).sorted(s).with_rows_satisfying(p): un-sliced sort buried in a subquery without raising; a join on top accepted; process() pruned the empty branch, the sort resurfaced and the order-loss error was raised by process() instead of the factory call; also C08, C11"),
 ("F25", "C08", "5ceda30", "a.chain(b).sorted([<expression that is not a plain column>]) compiled to UNION ... ORDER BY c + c, rejected by SQLite (and the SQL standard)"),
 ("F7", "C08", "1df0832", "S.sorted([b]).with_only_columns({a,c}).without_duplicates().with_only_columns({a}) accepted, then to_executable() raised KeyError: b"),
 ("F13", "C17", "43da33b", "S.with_calculated_column(x, e).with_only_columns({a}): Select.skip_to was the Calculation that the Select's own Projection had elided from the target chain"),
 ("F15", "C08", "950a975", "leaf.join(leaf): FROM t JOIN t without aliases; SQLite 'ambiguous column name'"),
 ("F31", "C03", "9408e10", "mark(leaf).without_duplicates(preferred_engine=sql) with a user-defined MarkerRelation subclass: NotImplementedError from backtrack_unary instead of falling back to root application"),
 ("F32", "C20", "1fac018", "sql_rel.join(it_rel_holding_a_user_defined_RowFilter) with no transfer allowed: the foreign operand was conformed before the engine check; NotImplementedError instead of EngineError"),
 ("F33", "C18", "c284e2b", "UserRowFilter applied to leaf.without_duplicates() in an iteration engine: execute() evaluated the target, then apply_custom_unary_operation() evaluated it again - the deduplication consumed the leaf twice in one execute()"),
 ("F34", "C17", "1a0aad5", "conform() of the hand-built tree Projection(all columns) over S.sorted([d]).with_only_columns({a}).without_duplicates(): RelationalAlgebraError 'will not preserve row order' for a projection that removes nothing, while the factories accept the same operation sequence (follow-up of the F7 repair)"),
 ("F35", "C08", "179267e", "UserMarker(S.sorted([...])).join(T) in the SQL engine: conform() replaced the user marker by a new Select around the sorted Select, which hid the un-sliced sort from the binary-operation check; the join was accepted and process() raised 'will not preserve row order'; also C11"),
 ("F36", "C08", "beeca1d", "UserRowFilter(...).apply(sql_rel.transferred_to(it), preferred_engine=sql): backtracking handed the operation (whose is_supported_by rejects SQL) to sql.Engine.append_unary, which raised NotImplementedError 'Unsupported operation type' instead of EngineError; also C03, C20"),
 ("F37", "C11", "74f5ed5", "S.with_only_columns({d,e}).sorted([...]).with_calculated_column(b, ...) where S has a column b: the nested subquery (F18 repair) buried the un-sliced sort; a join on top was accepted without the order-loss error and a later sort / slice saw an unordered subquery; also C05"),
 ("F38", "C07", "dc200c7", "Processor.process(tree) where the tree holds a statically empty LeafRelation without payload (what the base Engine.get_doomed_payload provides) anywhere but directly beneath a transfer: AssertionError 'Match should be exhaustive'"),
 ("F39", "C07", "87252a6", "Processor.process(payloadless_doomed_leaf.chain(payloadless_doomed_leaf.transferred_to(same engine)).materialized('m')): the processed target is a leaf, materialized() of it is the leaf itself, and attaching the doomed payload to it raised TypeError (found by `vp check` with VERIF_SEED=1 right after F38)"),
 ("F40", "C07", "1e8df74", "process(materialize(chain(doomed, materialize(chain(doomed, payloadless_doomed_leaf))))): the outer materialization was told its (collapsed) target was persisted, attached None and was left without a payload; also C10"),
 ("F27", "C08", "149b8d5", "identity_in_sql.join(rel_in_iteration) accepted: Select marker around an iteration-engine relation; process() AssertionError in Select.reapply; also C20 (engine mismatch not rejected), C14"),
 ("F26", "C14", "8ebe476", "sql_rel.transferred_to(sql) returned a new Select around sql_rel (not the relation itself), burying an un-sliced sort; found through C08 (order-loss error raised only by process())"),
]
out = {"findings": [], "fixed_lines": []}
for fid, props, what in known:
    out["findings"].append({"id": fid, "status": "known", "properties": props, "what_fails": what, "recogniser": f"relsim/known.py:{fid.lower()}", "witness": wit(fid)})
for fid, prop, commit, what in fixed:
    e = {"id": fid, "status": "fixed", "properties": [prop], "commit": commit, "what_fails": what}
    if os.path.exists(f"{W}/witness_{fid}.json"):
        e["witness"] = wit(fid)
    out["findings"].append(e)
    out["fixed_lines"].append(f"fixed: property={prop} {commit} {fid}: {what}")
json.dump(out, open("/verif/known_findings.json", "w"), indent=1, ensure_ascii=False)
print(len(out["findings"]))
