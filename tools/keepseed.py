"""dev helper: evaluate a seeded change and keep it under /verif/seeded/<id>/ (patch.diff, demo.py, notes.md, meta.json).
usage: tools/keepseed.py <src dir> <id> <prop> [budget] [--others]"""
import json, os, shutil, subprocess, sys
src, sid, prop = sys.argv[1:4]
rest = sys.argv[4:]
out = subprocess.run(["/venv/bin/python", "/verif/tools/seedtest.py", src, prop] + rest, capture_output=True, text=True,
                     env=dict(os.environ, PYTHONPATH="/verif"))
try:
    res = json.loads(out.stdout[out.stdout.index("{"):])
except Exception:
    print(out.stdout[-2000:], out.stderr[-2000:]); sys.exit(2)
ok = res.get("patch_applies") and res.get("suite_passes") and res.get("demo_fails_with_change") and res.get("demo_passes_without")
print(sid, "valid" if ok else "INVALID", "caught_by", res.get("caught_by"), {k: v["kinds"][:1] for k, v in res["checks"].items() if v["rc"] == 1})
if not ok:
    print({k: res[k] for k in res if k != "checks"}); sys.exit(1)
dst = f"/verif/seeded/{sid}"
os.makedirs(dst, exist_ok=True)
for f in ("patch.diff", "demo.py", "notes.md"):
    if os.path.exists(f"{src}/{f}") and os.path.abspath(src) != os.path.abspath(dst):
        shutil.copy(f"{src}/{f}", f"{dst}/{f}")
notes = open(f"{src}/notes.md").read() if os.path.exists(f"{src}/notes.md") else ""
meta = {
    "id": sid, "breaks_property": prop, "origin": "independent sub-agent given only the property text and a scratch worktree",
    "needs_to_manifest": notes.strip()[:1500],
    "confirmed": {"applies_to": "/repo HEAD at time of evaluation (scratch copy)", "existing_suite_passes_with_change": res["suite_passes"],
                  "suite_tail": res["suite_tail"], "demo_fails_with_change": res["demo_fails_with_change"],
                  "demo_passes_without_change": res["demo_passes_without"]},
    "what_was_run": f"tools/seedtest.py: patch applied to a scratch copy of /repo/python+tests; pytest; demo.py with and without; "
                    f"./check <prop> quick with RELSIM_REPO=<scratch> for {sorted(res['checks'])}",
    "checks": res["checks"], "caught_by": res["caught_by"],
}
json.dump(meta, open(f"{dst}/meta.json", "w"), indent=1)
