#!/bin/sh
# dev helper: run every registered check at the given tier
tier=${1:-quick}
cd /verif
for c in C01 C02 C03 C04 C05 C06 C07 C08 C09 C10 C11 C14 C15 C16 C17 C18 C19 C20; do
  ./check $c $tier > /tmp/relsim_$c.log 2>&1; echo "$c exit=$? $(grep -E '^(OK|VIOLATION|HARNESS)' /tmp/relsim_$c.log | head -3 | cut -c1-150)"
done
