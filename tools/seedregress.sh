#!/bin/sh
# dev helper: re-evaluate every stored seeded change against the current checks (updates meta.json)
cd /verif
for d in seeded/*/; do id=$(basename $d); c=${id%%-*}; /venv/bin/python tools/keepseed.py /verif/seeded/$id $id $c ${1:-22} 2>&1 | tail -1 | cut -c1-160; done
