#!/bin/sh
# dev helper: tools/evalround.sh <wprefix> <prop>...  -- evaluate /tmp/<wprefix>_<prop>/_seed/{1,2} as new seeds of <prop>
w=$1; shift
cd /verif
for c in "$@"; do base=$(ls -d seeded/$c-* | wc -l); for n in 1 2; do id=$c-$((base+n)); [ -d /tmp/${w}_$c/_seed/$n ] && /venv/bin/python tools/keepseed.py /tmp/${w}_$c/_seed/$n $id $c 22 2>&1 | tail -1 | cut -c1-200; done; done
