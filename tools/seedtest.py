"""dev helper: evaluate a seeded change.  tools/seedtest.py <dir with patch.diff+demo.py> <prop> [budget] [--others]
Applies the patch to a scratch copy of /repo (python/ and tests/), confirms suite passes, demo fails with / passes
without, then runs the property's quick check (and optionally all others) against the scratch copy."""
import json, os, shutil, subprocess, sys, tempfile
d, prop = sys.argv[1], sys.argv[2]
budget = sys.argv[3] if len(sys.argv) > 3 and sys.argv[3].isdigit() else "22"
others = "--others" in sys.argv
tmp = tempfile.mkdtemp(prefix="relsim_seed_")
res = {"dir": d, "property": prop}
try:
    for sub in ("python", "tests"):
        shutil.copytree(f"/repo/{sub}", f"{tmp}/{sub}", ignore=shutil.ignore_patterns("__pycache__", "*.egg-info"))
    p = subprocess.run(["patch", "-p1", "-d", tmp, "-i", os.path.abspath(f"{d}/patch.diff")], capture_output=True, text=True)
    res["patch_applies"] = p.returncode == 0
    if p.returncode:
        print(p.stdout, p.stderr)
    env = dict(os.environ, PYTHONPATH=f"{tmp}/python")
    t = subprocess.run(["/venv/bin/python", "-m", "pytest", "-q", "-p", "no:cacheprovider", "tests"], cwd=tmp, env=env, capture_output=True, text=True, timeout=900)
    res["suite_passes"] = t.returncode == 0
    res["suite_tail"] = t.stdout.strip().splitlines()[-1] if t.stdout.strip() else ""
    dm = subprocess.run(["/venv/bin/python", os.path.abspath(f"{d}/demo.py")], cwd=tmp, env=env, capture_output=True, text=True, timeout=300)
    res["demo_fails_with_change"] = dm.returncode != 0
    dp = subprocess.run(["/venv/bin/python", os.path.abspath(f"{d}/demo.py")], cwd="/tmp", env=dict(os.environ, PYTHONPATH="/repo/python"), capture_output=True, text=True, timeout=300)
    res["demo_passes_without"] = dp.returncode == 0
    props = [prop]
    if others:
        props += [c for c in "C01 C02 C03 C04 C05 C06 C07 C08 C09 C10 C11 C14 C15 C16 C17 C18 C19 C20".split() if c != prop]
    res["checks"] = {}
    for c in props:
        e = dict(os.environ, RELSIM_REPO=tmp, RELSIM_BUDGET=budget if c == prop else "12", RELSIM_NOEVIDENCE="1", RELSIM_REPLAY_DIR=f"{tmp}/replays")
        r = subprocess.run(["./check", c, "quick"], cwd="/verif", env=e, capture_output=True, text=True, timeout=1800)
        viol = [l for l in r.stdout.splitlines() if l.startswith("VIOLATION")]
        kinds = [l.strip() for l in r.stdout.splitlines() if l.startswith("  {")]
        res["checks"][c] = {"rc": r.returncode, "violations": len(viol), "kinds": kinds[:3]}
        if r.returncode not in (0, 1):
            res["checks"][c]["tail"] = r.stdout[-400:] + r.stderr[-400:]
    res["caught_by"] = [c for c, v in res["checks"].items() if v["rc"] == 1]
finally:
    shutil.rmtree(tmp, ignore_errors=True)
print(json.dumps(res, indent=1))
