"""dev helper: (re)generate relsim/mutants.json, verifying that every pattern matches /repo exactly once."""
import json, os
R = "/repo/python/lsst/daf/relation/"
M = []
def mut(name, props, file, old, new, budget=20):
    s = open(R + file).read()
    assert s.count(old) == 1, (name, s.count(old))
    M.append({"name": name, "props": props, "file": file, "old": old, "new": new, "budget": budget})

mut("slice_off_by_one", ["C01"], "iteration/_row_iterable.py", "if n >= self.start:", "if n > self.start:")
mut("sort_group_order", ["C01"], "iteration/_engine.py", "for ascending, callables in grouped_by_ascending[::-1]:", "for ascending, callables in grouped_by_ascending:")
mut("dedup_into_sliced_select", ["C02"], "sql/_engine.py", "                if not select.has_deduplication:\n                    if select.has_slice:", "                if not select.has_deduplication:\n                    if False:")
mut("selection_into_sliced_select", ["C02", "C11"], "sql/_engine.py", "            case Selection():\n                if select.has_slice:", "            case Selection():\n                if False:")
mut("join_on_drops_common", ["C02"], "sql/_engine.py", "                if common_columns:\n                    on_terms.extend(", "                if common_columns and len(common_columns) < 2:\n                    on_terms.extend(")
mut("selection_commute_ignores_count_dep", ["C04", "C03"], "_operations/_selection.py", "        if current.operation.is_count_dependent:", "        if False:")
mut("dedup_commute_ignores_count_dep", ["C04"], "_operations/_deduplication.py", "        if current.operation.is_count_dependent:", "        if False:")
mut("calc_commute_projection_not_widened", ["C04", "C03"], "_operations/_calculation.py", "                Projection(current.operation.columns | {self.tag})\n                if isinstance(current.operation, Projection)", "                Projection(current.operation.columns | {self.tag})\n                if False")
mut("slice_then_max", ["C05"], "_operations/_slice.py", "new_stop = min(self.stop, next.stop + self.start)", "new_stop = max(self.stop, next.stop + self.start)")
mut("sort_then_priority", ["C05"], "_operations/_sort.py", "        new_terms = list(next.terms)\n        for term in self.terms:", "        new_terms = list(self.terms)\n        for term in next.terms:")
mut("selection_merge_or", ["C05"], "_operations/_selection.py", "return Selection(predicate=other_predicate.logical_and(self.predicate))", "return Selection(predicate=other_predicate.logical_or(self.predicate))")
mut("dedup_min_rows", ["C06"], "_operations/_deduplication.py", "        return 1 if target.min_rows >= 1 else 0", "        return target.min_rows")
mut("slice_max_rows_ignores_start", ["C06"], "_operations/_slice.py", "            else:\n                return None\n        return max(stop - self.start, 0)", "            else:\n                return None\n        return max(stop - self.start, 0) if self.start < 3 else 0")
mut("join_max_rows_sum", ["C06"], "_operations/_join.py", "            return lhs.max_rows * rhs.max_rows", "            return lhs.max_rows + rhs.max_rows")
mut("processor_prunes_wrong_branch", ["C07", "C06"], "_processor.py", "                    if new_lhs.max_rows == 0:\n                        return new_rhs, rhs_persisted", "                    if new_lhs.max_rows == 0:\n                        return new_lhs, lhs_persisted")
mut("processor_payload_on_input_transfer", ["C07"], "_processor.py", "                result = original.reapply(new_target, payload)\n                return result, materialize_as is not None", "                result = original.reapply(new_target, payload)\n                if original.payload is None and payload is not None:\n                    object.__setattr__(original, 'payload', payload)\n                return result, materialize_as is not None")
mut("processor_hook_on_empty", ["C07"], "_processor.py", "                elif original.max_rows == 0:\n                    payload = destination.get_doomed_payload(original.columns)\n                    new_target = target", "                elif False:\n                    payload = destination.get_doomed_payload(original.columns)\n                    new_target = target")
mut("processor_not_caching_on_original", ["C10", "C07"], "_processor.py", "                original.attach_payload(payload)\n                if holder is not original:", "                if holder is original:\n                    original.attach_payload(payload)\n                if holder is not original:")
mut("strip_compound_again", ["C08"], "sql/_select.py", " and not self.has_slice and not self.is_compound:", " and not self.has_slice:")
mut("projection_sort_column_dropped", ["C08"], "sql/_engine.py", "                            if select.has_sort and not select.sort.columns_required <= operation.columns:", "                            if False:")
mut("payload_not_copied", ["C09"], "sql/_engine.py", "                        result = self.to_payload(target).copy()\n                        result.columns_available[tag]", "                        result = self.to_payload(target)\n                        result.columns_available[tag]")
mut("sortterm_unfrozen", ["C09"], "_operations/_sort.py", "@dataclasses.dataclass(frozen=True)\nclass SortTerm:", "@dataclasses.dataclass\nclass SortTerm:")
mut("attach_payload_overwrites", ["C10"], "_marker_relation.py", "        if self.payload is None:\n            object.__setattr__(self, \"payload\", payload)", "        if True:\n            object.__setattr__(self, \"payload\", payload)")
mut("iteration_materialization_not_cached", ["C10", "C18"], "iteration/_engine.py", "                relation.attach_payload(result)\n                return result", "                return result")
mut("sort_not_nested_over_slice", ["C11"], "sql/_engine.py", "            case Sort():\n                if select.has_slice:", "            case Sort():\n                if False:")
mut("materialize_order_loss_guard_removed", ["C11"], "sql/_engine.py", "        if conformed_target.has_sort and not conformed_target.has_slice:", "        if False:")
mut("offset_dropped_with_limit", ["C11", "C02"], "sql/_engine.py", "        if select.slice.start:\n            executable = executable.offset(select.slice.start)", "        if select.slice.start and select.slice.limit is None:\n            executable = executable.offset(select.slice.start)")
mut("chain_engine_check_removed", ["C14", "C20"], "_operations/_chain.py", "        if lhs.engine != rhs.engine:", "        if False:")
mut("transfer_to_same_engine_kept", ["C14"], "_engine.py", "        if target.engine == self:\n            if payload is not None:", "        if False:\n            if payload is not None:")
mut("transfer_simplify_through_locked", ["C15"], "_transfer.py", "        if target.is_locked:\n            return None", "        if False:\n            return None")
mut("backtrack_through_locked", ["C03"], "iteration/_engine.py", "        if tree.is_locked:\n            return tree, False, (f\"{tree} is locked\",)", "        if False:\n            return tree, False, (f\"{tree} is locked\",)")
mut("diagnostics_chain_or", ["C16"], "_diagnostics.py", "return cls(lhs_result.is_doomed and rhs_result.is_doomed, messages)", "return cls(lhs_result.is_doomed or rhs_result.is_doomed, messages)")
mut("diagnostics_selection_not_executed", ["C16"], "_operations/_selection.py", "    def is_empty_invariant(self) -> bool:\n        # Docstring inherited.\n        return False", "    def is_empty_invariant(self) -> bool:\n        # Docstring inherited.\n        return True")
mut("conform_rewraps_select", ["C17"], "sql/_engine.py", "            case Select():\n                return relation\n            case UnaryOperationRelation(operation=operation, target=target):\n                conformed_target = self.conform(target)", "            case Select() if relation.has_slice:\n                return Select.apply_skip(relation)\n            case Select():\n                return relation\n            case UnaryOperationRelation(operation=operation, target=target):\n                conformed_target = self.conform(target)")
mut("is_compound_never_set", ["C17"], "sql/_select.py", "            case BinaryOperationRelation(operation=Chain()):\n                is_compound = True", "            case BinaryOperationRelation(operation=Chain()):\n                is_compound = bool(projection)")
mut("chain_single_pass", ["C18"], "iteration/_row_iterable.py", "        self.chain = chain\n", "        self.chain = chain\n        self._it = None\n")
mut("selection_eager", ["C18"], "iteration/_row_iterable.py", "    def __init__(self, target: RowIterable, callable: Callable[[Mapping[ColumnTag, Any]], bool]):\n        self.target = target", "    def __init__(self, target: RowIterable, callable: Callable[[Mapping[ColumnTag, Any]], bool]):\n        self.target = RowSequence(list(target))")
mut("name_without_uuid", ["C19"], "_engine.py", "_{uuid.uuid4().hex}\"", "\"", 12)
mut("name_short_uuid", ["C19"], "_engine.py", "_{uuid.uuid4().hex}\"", "_{uuid.uuid4().hex[:3]}\"", 12)
mut("calc_duplicate_tag_unchecked", ["C20"], "_operations/_calculation.py", "        if self.tag in target.columns:\n            raise ColumnError(f\"Calculated column {self.tag} is already present in {target}.\")", "        if self.tag in target.columns and preferred_engine is None:\n            raise ColumnError(f\"Calculated column {self.tag} is already present in {target}.\")")
mut("sort_columns_unchecked_when_backtracking", ["C20"], "_operations/_sort.py", "            if not term.expression.columns_required <= target.columns:", "            if preferred_engine is None and not term.expression.columns_required <= target.columns:")
mut("reversed_slice_accepted", ["C20"], "_operations/_slice.py", "        if self.stop is not None and self.stop < self.start:\n            raise ValueError", "        if self.stop is not None and self.stop < self.start - 1:\n            raise ValueError")
# the chain_single_pass mutant needs its __iter__ changed too
for m in M:
    if m["name"] == "chain_single_pass":
        m["extra"] = [{"old": "        return itertools.chain.from_iterable(self.chain)", "new": "        if self._it is None:\n            self._it = itertools.chain.from_iterable(self.chain)\n        return self._it"}]
        assert open(R + m["file"]).read().count(m["extra"][0]["old"]) == 1
json.dump(M, open("/verif/relsim/mutants.json", "w"), indent=1)
print(len(M), "mutants")
