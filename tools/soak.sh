#!/bin/sh
# dev helper: soak every check over several seeds; usage: tools/soak.sh <tier> <seed0> <seed1> [budget]
tier=${1:-quick}; s0=${2:-1}; s1=${3:-5}; budget=$4
cd "$(dirname "$0")/.." || exit 2
mkdir -p soak_out
for s in $(seq $s0 $s1); do
 for c in C01 C02 C03 C04 C05 C06 C07 C08 C09 C10 C11 C14 C15 C16 C17 C18 C19 C20; do
  if [ -n "$budget" ]; then export RELSIM_BUDGET=$budget; fi
  VERIF_SEED=$s RELSIM_NOEVIDENCE=1 RELSIM_REPLAY_DIR=$PWD/soak_out ./check $c $tier > soak_out/$c.$s.log 2>&1
  rc=$?
  echo "seed=$s $c rc=$rc $(grep -E '^(OK|VIOLATION|HARNESS)' soak_out/$c.$s.log | head -2 | cut -c1-160)"
 done
done
