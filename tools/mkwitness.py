"""dev helper: tools/mkwitness.py <profile> <out.json> '<scenario json>'  -> replay-format witness file."""
import json, sys
import relsim  # noqa
from relsim.profiles import PROFILES
from relsim.runner import execute, claimed, sig_of
prof, out, sc = sys.argv[1], sys.argv[2], json.loads(sys.argv[3])
sc.setdefault("seed", 1); sc.setdefault("config", {"hash_mode": "ascii", "db_reverse": False, "db_shuffle": False, "hook_mode": "eager"})
run = execute(PROFILES[prof], sc, frozenset())
vs = claimed(PROFILES[prof], run)
print("violations:", [(v["kind"], v.get("would_be_finding")) for v in run.violations])
if vs:
    rep = {"property": prof, "profile": prof, "tier": "quick", "signature": sig_of(vs[0]), "violation": vs[0], "scenario": sc, "armed": []}
    json.dump(rep, open(out, "w"), indent=1, default=str); print("written", out)
