"""dev helper: run a check with recognisers ungated, print minimised violations."""
import json, os, subprocess, sys, glob
prop = sys.argv[1]; budget = sys.argv[2] if len(sys.argv) > 2 else "6"
for f in glob.glob(f"/verif/replays/{prop}_*"): os.remove(f)
env = dict(os.environ, RELSIM_NOGATE="1", RELSIM_BUDGET=budget)
p = subprocess.run(["./check", prop, "quick"], cwd="/verif", env=env, capture_output=True, text=True)
print(p.stdout[-3000:]); print(p.stderr[-2000:])
for f in sorted(glob.glob(f"/verif/replays/{prop}_*")):
    r = json.load(open(f))
    print("==", f)
    print(" cfg", r["scenario"]["config"])
    for o in r["scenario"]["ops"]: print("   ", json.dumps(o))
    v = r["violation"]; print(" V", {k: v[k] for k in v if k not in ("detail",)}); print(" D", json.dumps(v["detail"])[:700])
