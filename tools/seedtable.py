"""dev helper: markdown table of /verif/seeded/*/meta.json for DESIGN.md section 12"""
import json, glob, os, re
rows = []
for d in sorted(glob.glob("/verif/seeded/*/")):
    m = json.load(open(d + "meta.json"))
    notes = m.get("needs_to_manifest", "")
    first = re.sub(r"\s+", " ", notes.strip().split("\n")[0])[:150]
    own = m["breaks_property"] in m.get("caught_by", [])
    others = [c for c in m.get("caught_by", []) if c != m["breaks_property"]]
    kinds = []
    for c in m.get("caught_by", []):
        for k in m["checks"][c]["kinds"][:1]:
            mm = re.search(r'"kind": "([a-z_]+)"', k)
            if mm: kinds.append(mm.group(1))
    st = "caught" if own else ("caught by " + ",".join(others) if others else "**missed**")
    if m.get("status"): st += " (obsolete, see meta)"
    rows.append(f"| {m['id']} | {m['breaks_property']} | {first} | {st} | {', '.join(sorted(set(kinds)))} |")
print("| id | property | change (first line of the author's notes) | result of `./check <property> quick` | oracle kind |")
print("|----|----------|------------------------------------------|--------------------------------------|-------------|")
print("\n".join(rows))
