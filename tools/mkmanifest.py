"""dev helper: write /verif/MANIFEST.json from the profiles."""
import json
import relsim  # noqa
from relsim.profiles import PROFILES

TEXT = {
 "C01": "Seeded search over iteration-engine histories (all six unary ops, chain, materialization, it<->it2 transfer, cursors pulled alternately with other clients' operations, upstream and column-function faults with one retry); every result compared as an ordered list with an independent history model. Sampling evidence, not proof; the right level because the space of operation interleavings and consumption schedules is unbounded.",
 "C02": "Seeded search over SQL-engine histories; every new relation is compiled and run on a real SQLite under both physical scan orders, with harness-owned (salted / colliding) column-tag hashes and shuffled inserts, and compared with the history model at the strength the determinacy gating allows (list / bag / count+sub-bag).",
 "C03": "Seeded search over multi-engine histories (including calls applied on top of trees returned by process(), round trips with statically empty chain branches, slices issued through Slice(...).apply(rel, preferred_engine=...)) with every preferred-engine flag combination; each result is read by the tree interpreter and processed + executed by the real engines, and attributed to C03 only if the same call without the options - built, interpreted and executed too - does not show the same discrepancy; engine placement (transfer / require flags) checked on every call.",
 "C04": "In-run monitor inside the C03 workload: every commute() call the library makes while backtracking is captured and its answer (first/second/done) evaluated by the tree interpreter on the real target rows plus seeded permutations/duplications; a monitor, not a schedule/fault search - no seam or fault bears on commute().",
 "C05": "History workload skewed to adjacent same-kind operations, do-nothing operations and out-of-window slices; on every step the tree the library built is read with list semantics (tree interpreter) and executed, and compared with sequential application; a raise from then()/simplify() on individually valid operations is a violation. Monitor plus history model; no seam or fault bears on merging.",
 "C06": "Seeded search over histories in both engines and across engines with truthful but variously tight leaf bounds (exact/loose/zero-min/unbounded/doomed/identity); every executed result must have exactly the relation's columns as keys and a count within [min_rows,max_rows]; short-cut-affected results (join elision, empty short-circuit, chain pruning) are compared with the model that ignores all short-cuts.",
 "C07": "Crash-point enumeration inside seeded multi-engine histories: for every generated scenario a fault is placed at crossings of the transfer/materialize hooks (before / after the side effect), of DB statements (before / during via the SQLite progress handler / after) and of upstream row streams - every crossing (cap 64) in the thorough tier, sampled in quick - followed by one fault-free retry; fault-free batch checked separately. Input tree fingerprint, payload placement, hook arguments, attached payload contents and final rows are all checked.",
 "C08": "Seeded search for accepted-then-failing trees: every relation any factory accepts (SQL, iteration, multi-engine) is compiled and executed (through process() where needed); any exception after acceptance is a violation labelled with its phase. Known, recorded SQLite/engine limitations are recognised individually.",
 "C09": "Long interleaved histories (factory calls, executions, cursors, process, diagnostics, rejected and faulted calls) over one shared pool; after every step every earlier relation is re-fingerprinted (structure, columns, bounds, str, repr, hash, eq, per-operation flags, leaf payload content); same sequence rebuilt twice must be == with equal hash; compile/execute twice must repeat.",
 "C10": "Crash-point enumeration over histories of attach_payload / execute / process on trees sharing materialization nodes (faults at hook / DB / row-stream / column-function crossings, including a column function leaking StopIteration, each followed by one retry): payload identity ledger (write-once), content ledger (rows / SQL payload struct of a cached node never change), attach on non-markers / occupied markers must raise TypeError, leaf and hook ledgers prove no upstream of a cached node is evaluated again, at most one completed evaluation per materialization, every evaluated materialization ends up cached, cached rows == model.",
 "C11": "Seeded search over SQL histories dense in total / non-total sorts and slices, executed under both physical scan orders so that the right window cannot appear by luck; ordered-list comparison whenever the model is order-determinate; join/chain/materialise on an un-sliced sort must raise; no binary operand or materialization target may carry a sort without a slice.",
 "C14": "Every tree returned by any factory call or by process() in multi-engine histories (3 engines, engine-restricted column function, all flag combinations, faulted/partial processing) is walked node by node (target/lhs/rhs/skip_to) against the structural invariants; documented no-ops must return the identical object.",
 "C15": "Histories of transfer chains among three engines with materializations that get processed (payload cached) at random points, then factory calls with every preferred-engine option on top: every locked node of an input that occurs in the output must be the identical object; round-trip / self transfers and re-materialisation checked by rows and node counts.",
 "C16": "Diagnostics.run on seeded trees of both engines without executor, with a truthful executor (answers from the tree interpreter, so the premise holds by construction) and with a real executor (process + run) that can fault; verdict compared with the emptiness of the tree in the same (canonical-order) world.",
 "C17": "Every SQL relation returned by a factory is checked for conform identity, idempotence and Select-marker coherence; for every such relation the raw tree of its history (assembled bottom-up with the dataclass constructors, no engine help) is conformed and executed under both scan orders against the model; conform is also applied to inner locked nodes that already carry a cached payload; trees re-conformed by process() are included.",
 "C18": "Consumption-schedule and fault enumeration on instrumented lazy leaves: starts / rows / closes are counted per leaf while execute() runs and during each of 1-3 iterations (with partial, abandoned and faulted iterations at every row boundary in the thorough tier); lazy trees must not touch leaves in execute(), eager nodes consume once, results repeat identically.",
 "C19": "Thread-schedule simulation: 1-5 real threads, one runnable at a time, pre-empted at every source line inside lsst.daf.relation under a seeded scheduler (biased to pre-empt inside get_relation_name), seeded uuid4 and clock; all names handed out in a run must be pairwise distinct across engines and start with their prefix. The only property that quantifies over thread schedules.",
 "C20": "For calls the model deems acceptable, single ill-typing edits are issued at any depth of multi-engine histories with every flag combination; the model confirms ill-formedness first; the call must raise the documented class from the factory itself and all earlier relations must fingerprint unchanged.",
}
NOTE = {
 "C04": "in-run monitor only (see DESIGN 7/C04): pair x target coverage is whatever backtracking reaches in the sampled histories; trusted: tree interpreter",
 "C05": "monitor + history model only: no schedule or fault dimension; trusted: history model and tree interpreter",
}
checks = []
for prop in sorted(list(PROFILES) + ["C19"]):
    lvl = "exploration" if prop == "C19" else PROFILES[prop].level
    checks.append({
        "property_id": prop,
        "quick_cmd": f"./check {prop} quick",
        "thorough_cmd": f"./check {prop} thorough",
        "evidence_file": f"/verif/evidence/{prop}.json",
        "replay_cmd_template": "./check replay {path}",
        "engine": "relsim",
        "level_claimed": {"category": lvl, "text": TEXT[prop], "design_ref": f"DESIGN.md section 7 ({prop})"},
        "level_note": NOTE.get(prop, "sampling, not enumeration; trusted base: history model / tree interpreter (relsim/model.py, interp.py), determinacy gating (conservative), SQLite + SQLAlchemy as 'the database', CPython settrace for C19"),
        "technique": "deterministic simulation: seeded scenario/schedule search" + (" with crash-point enumeration (fault injection at hook/DB/stream crossings)" if lvl == "fault_enumeration" else (" with fault injection" if prop != "C19" and PROFILES[prop].fault_sites else "")) + (" (in-run monitor)" if prop in ("C04", "C05") else ""),
    })
man = {
 "version": 1,
 "setup_cmd": "/venv/bin/python -c \"import sys; sys.path.insert(0, '/verif'); import relsim, sqlalchemy, lsst.daf.relation; print('relsim ok', lsst.daf.relation.__file__)\"",
 "hooks": {"guard": "LSST_DAF_RELATION_VERIF", "enable": "no hooks were needed: every seam is an interface the library already exposes (ColumnTag protocol, RowIterable payloads, Processor hooks, Engine.functions, the DB connection) or a harness-side patch of uuid/time/sys.settrace; checks import /repo/python of the working tree directly (RELSIM_REPO overrides the path for mutant testing)", "baseline_off_cmd": "cd /repo && /venv/bin/python -m pytest -ra -q -p no:cacheprovider --timeout=900 --continue-on-collection-errors", "source_commits": [], "add_only": True},
 "engines": [{"name": "relsim", "path": "/verif/relsim", "serves_properties": [c["property_id"] for c in checks], "kind_free_text": "deterministic simulator: seeded scenario generator + executor over real lsst.daf.relation / SQLAlchemy / SQLite with harness-owned seams (tag hashes, DB physical order, statement faults, instrumented row streams, Processor hooks, uuid, thread scheduler), history-model and tree-interpreter oracles, ddmin shrinker, replay files"}],
 "checks": checks,
 "notes": "quick: ~22 s of search per property on 16 processes (C19 15 s); thorough: 5-8 min per property. VERIF_SEED selects the base seed. exit 0 = held on everything explored (KNOWN-FINDING lines for recorded findings whose witness still fails), exit 1 = VIOLATION lines with replay files, exit 2 = harness error. Genuine defects repaired by 'fix:' commits in /repo and defects recorded rather than repaired are listed in /verif/known_findings.json.",
 "not_applicable": [
  {"property_id": "C12", "reason": "pure function of an immutable expression value and a row: no call history, seam, schedule or fault can change what a compiled callable / SQL fragment returns, so simulation could only add input enumeration (the job of bounded-exhaustive or SMT techniques); expressions are exercised by every workload but nothing is claimed"},
  {"property_id": "C13", "reason": "as_trivial / flatten_logical_and / columns_required are pure functions of immutable values with no schedule, clock, fault or interleaving; not a simulation target (the cached columns_required getter is covered by C09's fingerprints)"},
 ],
}
json.dump(man, open("/verif/MANIFEST.json", "w"), indent=1)
print(len(checks), "checks")
